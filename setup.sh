#!/bin/bash
# Offline setup: stub libflux (so the whole repo type-checks/builds), build the engine.
set -euo pipefail
cd "$(dirname "$0")"
. ./env.sh
mkdir -p build/fluxstub build/bin evidence replays
H=$(ls -d /root/go/pkg/mod/github.com/influxdata/flux@*/libflux/include | head -1)
{
  echo '#include <stdlib.h>'
  grep -ohE 'flux_[a-z_0-9]+[ ]*\(' "$H/influxdata/flux.h" | sed 's/[ (]//g' | sort -u | while read -r f; do
    echo "void *$f(void) { abort(); }"
  done
} > build/fluxstub/stub.c
cc -c -o build/fluxstub/stub.o build/fluxstub/stub.c
rm -f build/fluxstub/libflux.a
ar rcs build/fluxstub/libflux.a build/fluxstub/stub.o
cat > build/fluxstub/flux.pc <<PC
Name: flux
Description: stub libflux for offline type-checking (every symbol aborts)
Version: 0.191.0
Cflags: -I$H
Libs: -L$VERIF_ROOT/build/fluxstub -lflux
PC
(cd engine && "$ENGINE_GO" build -o ../build/bin/govc ./cmd/govc)
echo "setup ok: $(build/bin/govc -version 2>/dev/null || true)"
