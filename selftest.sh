#!/bin/bash
# Must-fail / must-pass corpus: each selftest/mutants/<Cxx>-<name>.patch and each
# seeded/<Cxx>-<name>/patch.diff (property-breaking changes written by independent sub-agents) is
# applied to a scratch copy of /repo (outside /repo and /verif, removed afterwards) and the
# property's quick check is run against it. "fail" changes must exit 1 with a VIOLATION line;
# "pass" changes (harmless refactors) must exit 0.
#   usage: ./selftest.sh [Cxx ...]        SELFTEST_JOBS=<n> runs n changes at a time (default 3)
set -uo pipefail
cd "$(dirname "$0")"
. ./env.sh
want="${*:-}"
jobs="${SELFTEST_JOBS:-3}"
tmpout=$(mktemp -d /var/tmp/verif-selftest.XXXXXX)

run_one() {
  p="$1"; name="$2"; prop="$3"; expect="$4"
  scratch=$(mktemp -d /var/tmp/verif-scratch.XXXXXX)
  rsync -a --exclude .git /repo/ "$scratch/"
  if ! (cd "$scratch" && patch -p1 -s < "$VERIF_ROOT/$p" >/dev/null 2>&1); then
    echo "SELFTEST $name: patch does not apply"; rm -rf "$scratch"; return 1
  fi
  out=$(VERIF_REPO="$scratch" ./check quick "$prop" -no-evidence 2>&1); code=$?
  rm -rf "$scratch"
  viol=$(echo "$out" | grep -c '^VIOLATION' || true)
  case "$expect" in
    fail) if [ $code -eq 1 ] && [ "$viol" -gt 0 ]; then echo "SELFTEST $name: ok (caught: $(echo "$out" | grep '^VIOLATION' | head -1 | sed 's/.*obligation=//'))"; return 0; else echo "SELFTEST $name: MISSED (exit $code)"; return 1; fi;;
    pass) if [ $code -eq 0 ]; then echo "SELFTEST $name: ok (no alarm)"; return 0; else echo "SELFTEST $name: FALSE ALARM (exit $code): $(echo "$out" | grep -E '^(VIOLATION|UNDECIDED)' | head -2)"; return 1; fi;;
  esac
}

list=()
for p in selftest/mutants/*.patch; do
  name=$(basename "$p" .patch); prop="${name%%-*}"
  if [ -n "$want" ] && ! [[ " $want " == *" $prop "* ]]; then continue; fi
  expect=$(cat "selftest/mutants/$name.expect" 2>/dev/null || echo fail)
  list+=("$p|$name|$prop|$expect")
done
for d in seeded/*/; do
  name=$(basename "$d"); prop="${name%%-*}"
  [ -f "$d/patch.diff" ] || continue
  if [ -n "$want" ] && ! [[ " $want " == *" $prop "* ]]; then continue; fi
  list+=("seeded/$name/patch.diff|seed:$name|$prop|fail")
done

n=0
for item in "${list[@]}"; do
  IFS='|' read -r p name prop expect <<< "$item"
  ( run_one "$p" "$name" "$prop" "$expect" > "$tmpout/$n.out" 2>&1; echo $? > "$tmpout/$n.rc" ) &
  n=$((n+1))
  while [ "$(jobs -r | wc -l)" -ge "$jobs" ]; do sleep 0.5; done
done
wait
rc=0
for i in $(seq 0 $((n-1))); do
  cat "$tmpout/$i.out"
  [ "$(cat "$tmpout/$i.rc" 2>/dev/null || echo 1)" = "0" ] || rc=1
done
rm -rf "$tmpout"
exit $rc
