#!/bin/bash
# Must-fail / must-pass corpus: each selftest/mutants/<Cxx>-<name>.patch is applied to a scratch
# copy of /repo (outside /repo and /verif, removed afterwards) and the property's quick check is
# run against it. "fail" mutants must exit 1 with a VIOLATION line; "pass" mutants (harmless
# refactors) must exit 0.   usage: ./selftest.sh [Cxx ...]
set -uo pipefail
cd "$(dirname "$0")"
. ./env.sh
want="${*:-}"
rc=0
for p in selftest/mutants/*.patch; do
  name=$(basename "$p" .patch); prop="${name%%-*}"
  if [ -n "$want" ] && ! [[ " $want " == *" $prop "* ]]; then continue; fi
  expect=$(cat "selftest/mutants/$name.expect" 2>/dev/null || echo fail)
  scratch=$(mktemp -d /var/tmp/verif-scratch.XXXXXX)
  rsync -a --exclude .git /repo/ "$scratch/"
  if ! (cd "$scratch" && patch -p1 -s < "$VERIF_ROOT/$p"); then echo "SELFTEST $name: patch does not apply"; rc=1; rm -rf "$scratch"; continue; fi
  out=$(VERIF_REPO="$scratch" ./check quick "$prop" -no-evidence 2>&1); code=$?
  rm -rf "$scratch"
  viol=$(echo "$out" | grep -c '^VIOLATION' || true)
  case "$expect" in
    fail) if [ $code -eq 1 ] && [ "$viol" -gt 0 ]; then echo "SELFTEST $name: ok (caught: $(echo "$out" | grep '^VIOLATION' | head -1 | sed 's/.*obligation=//'))"; else echo "SELFTEST $name: MISSED (exit $code)"; rc=1; fi;;
    pass) if [ $code -eq 0 ]; then echo "SELFTEST $name: ok (no alarm)"; else echo "SELFTEST $name: FALSE ALARM (exit $code): $(echo "$out" | grep -E '^(VIOLATION|UNDECIDED)' | head -2)"; rc=1; fi;;
  esac
done
exit $rc
