# sourced by setup.sh, check, selftest.sh — resolves toolchains and offline env
export GOFLAGS=-mod=mod GOPROXY=off GOSUMDB=off GOTOOLCHAIN=local GONOSUMDB=* GONOSUMCHECK=1 GOFLAGS=-mod=mod
export CGO_ENABLED=1
VERIF_ROOT="$(cd "$(dirname "${BASH_SOURCE[0]}")" && pwd)"
export VERIF_ROOT
export VERIF_REPO="${VERIF_REPO:-/repo}"
# Go toolchain for /repo (go.mod wants >= 1.25.7)
for g in /root/go/pkg/mod/golang.org/toolchain@v0.0.1-go1.25.7.linux-amd64/bin/go /opt/veriftools/go1.26.8/bin/go; do
  if [ -x "$g" ]; then export REPO_GO="$g"; break; fi
done
# Go toolchain for the engine (x/tools v0.50.0 needs go1.26)
for g in /opt/veriftools/go1.26.8/bin/go /root/go/pkg/mod/golang.org/toolchain@v0.0.1-go1.26.8.linux-amd64/bin/go; do
  if [ -x "$g" ]; then export ENGINE_GO="$g"; break; fi
done
export PKG_CONFIG_PATH="$VERIF_ROOT/build/fluxstub${PKG_CONFIG_PATH:+:$PKG_CONFIG_PATH}"
export GOCACHE="${GOCACHE:-/root/.cache/go-build}"
# make -lflux resolvable even if a cached cgo action recorded another stub location
export CGO_LDFLAGS="-L$VERIF_ROOT/build/fluxstub ${CGO_LDFLAGS:-}"
