#!/bin/bash
# runs every claimed check (quick) on the unchanged tree and prints one summary line each
cd /verif
for p in $(python3 -c "import json;print(' '.join(c['property_id'] for c in json.load(open('MANIFEST.json'))['checks']))") "$@"; do
  out=$(./check quick $p 2>&1); code=$?
  echo "exit=$code $(echo "$out" | tail -1 | cut -c1-170)"
  echo "$out" | grep -E "^(VIOLATION|UNDECIDED)" | head -3 | cut -c1-200
done
