#!/usr/bin/env python3
# Regenerates /verif/MANIFEST.json from the table below (claims) and properties.jsonl.
import json, subprocess
props=[json.loads(l) for l in open('/verif/properties.jsonl')]
TECH="contract-based deductive verification: contracts on the real functions (comment files behind build tag verif), weakest-precondition style VCs generated from go/ssa of /repo's current tree, discharged by z3 4.8.12 / z3 5.1.0 / cvc5 1.0; counterexamples replayed on the real code"
CLAIMS={
 "C01":("Proof, for every pre-state and point (unbounded history length), of the alert state machine on the real code: determineLevel/findFirstMatchLevel return exactly specLevel (highest level whose condition holds, upward search from the current level, reset gate, downward search; loop invariant over the level walk) and the documented worked example 61 73 64 85 62 56 47 is a lemma over the same shape; addEvent/updateExpired/triggered/duration/currentLevel keep the history ring invariant and compute changed/expired/firstTriggered/lastTriggered as the property states; alertState.Point: handleEvent is called if and only if the emission rule of the property holds (flapping, state-changes-only with interval, recovery, no-recoveries), with the level, point time and lastTriggered-firstTriggered as arguments of the event. Stream form.",
        "Assumed: predicate evaluation is a deterministic function of (expression, pool, point) (trusted pure EvalPredicate); renderID/event/handleEvent/augment* and message getters leave the state machine's fields alone (trusted, modifies nothing); AlertNode slices have length 4 (requires). Not covered: BufferedBatch (batch form, all()), percentChange numerics (floats uninterpreted), templates, handler delivery, the whole-history reading of 'time since the ID last left OK'."),
 "C16":("Proof on the real code: timeTicker.Next is now+every, or aligned the least multiple of every after now (the live ticker's instant); QueryNode.Queries: the i-th historical query covers [tick_i-offset-period, tick_i-offset) with tick_{i+1}=Next(tick_i) (loop invariant over the growing slice, unbounded); Query.SetStartTime/SetStopTime/StartTime/StopTime; NewQuery: the final WHERE condition is the time range on the query's own two literals, or user AND time-range with the user's expression in an AND-safe (parenthesised or tighter-binding) position.",
        "Assumed: time.Time as integer ns (Add/Sub/Truncate/Round/After/IsZero prelude), Query.Clone (trusted: fresh literals), ticker interface Next pure, influxql.ParseQuery yields non-nil statements, influxql prints binary expressions without parentheses. Not covered: doQuery's live arm, cron ticker, group-by-time offsets, checkDBRPs."),
 "C09":("Proof, for all inputs and unboundedly many events, of contracts on the real topic code: sortedStates.Less is the (level desc, id asc) strict weak order (3 lemmas); Topic.updateEvent keeps the representation invariant (sorted is ordered, duplicate-free, consistent with the events map, same size), returns the previous state of the same id, and leaves all other ids untouched; MaxLevel is the maximum of the listed states; EventStates(min) is exactly the events at or above min; EventState; Topics.UpdateEvent creates a missing topic. Slice of the property: per-call sequential facts only.",
        "Not covered: concurrent publishers (locks are no-ops), handler fan-out/FIFO, match expressions, publish/aggregate handlers. 'sorted covers all of events' rests on invariant + equal sizes (pigeonhole step not machine-checked). Trusted: sort.Sort contract specialised to sortedStates, expvar/vars calls effect-free, SMT solvers, go/ssa, govc."),
 "C12":("Proof, for all inputs, of the full functional contract of CircularQueue (Enqueue incl. the growing path, Dequeue, Peek): representation invariant and abstract-view postconditions (nothing lost, duplicated or reordered). Slice of the property: the buffering data structure under union/join.",
        "Not covered: independence from parent interleaving (schedules), join/union emission logic. Trusted: SMT solvers, go/ssa, govc; machine ints mathematical."),
 "C20":("Proof of the authorisation rule on the real code: User.AuthorizeAction returns nil iff NoPrivileges, admin, or the nearest ancestor-or-self of path.Clean(resource) carrying a grant covers the privilege (walk over path.Dir proved with a loop invariant against a recursive spec); the result depends on the resource only through path.Clean/IsAbs; method->privilege table; authorizeRequest passes only if that rule holds for the method's privilege on the API resource; inner handlers are called only after authorizeRequest returned nil / after authentication yielded a user without error (guardcall obligations); DatabaseResource/APIResource equal their specification; injectivity of the database mapping is posed as a lemma and FAILS (known finding).",
        "Assumed: masks are 5-bit (requires), path.Clean/Dir/IsAbs/Join and strings.ToUpper/TrimPrefix/Replace as uninterpreted pure functions (Replace = str.replace_all), AuthService and jwt library (trusted, no effect on modelled memory), serveWriteLine database check not under contract. Trusted: SMT solvers, go/ssa, govc."),
}
NA={
 "C07":"the property quantifies over goroutine schedules, channel occupancy and stop timing (liveness: 'eventually handed to its outputs', 'all goroutines exit'); per-function contracts over sequential code cannot express it and the engine has no model of concurrent channels",
 "C14":"whole-history property over HTTP handlers, DAO, TaskMaster and start-up goroutines with restart at any transaction boundary; the implementing handlers are 100-300 lines of calls into httpd/json/storage whose contracts would all have to be assumed, leaving nothing proved",
}
checks=[]; na=[]
for p in props:
    i=p['id']
    if i in CLAIMS:
        text,note=CLAIMS[i]
        checks.append({"property_id":i,"quick_cmd":"./check quick "+i,"thorough_cmd":"./check thorough "+i,"evidence_file":"evidence/%s.json"%i,
          "replay_cmd_template":"./check replay {path}","engine":"govc",
          "level_claimed":{"category":"proof","text":text,"design_ref":"DESIGN.md §9 "+i},"level_note":note,"technique":TECH})
    else:
        na.append({"property_id":i,"reason":NA.get(i,"not claimed yet in this session: contracts for this property are still under construction (no technique switch intended)")})
src=subprocess.run("git -C /repo log --format=%H --grep='^verif:'",shell=True,capture_output=True,text=True).stdout.split()
m={"version":1,"setup_cmd":"./setup.sh",
 "hooks":{"guard":"verif","enable":"go/packages is run with -tags verif; the only guarded files are comment-only zz_verif_contracts.go files holding the //@ contracts","baseline_off_cmd":"cd /repo && go test -mod=mod -vet=off -count=1 -timeout 25m ./...","source_commits":src,"add_only":True},
 "engines":[{"name":"govc","path":"engine/cmd/govc","serves_properties":sorted(CLAIMS),"kind_free_text":"contract-based deductive verifier for Go written for this task: go/ssa (naive form) of the real source -> guarded verification conditions (state merging, loop cuts at invariants, modular calls by contract, frames) -> z3 4.8.12 / z3 5.1.0 / cvc5 1.0, with replay of counterexamples by overlay-injected in-package Go tests"}],
 "checks":checks,"not_applicable":na,
 "notes":"See DESIGN.md. Contracts live in /repo as comment-only files behind build tag verif; known_findings.txt lists recorded findings and repaired defects; selftest.sh runs the must-fail corpus."}
json.dump(m,open('/verif/MANIFEST.json','w'),indent=1)
print("claimed:",sorted(CLAIMS))
