#!/bin/bash
# tryseed.sh <property> <seed dir> [<name>] : confirm a seeded breaking change (demo fails with it,
# passes without, repo builds) in a scratch copy, run the property's quick check against it,
# and store it under /verif/seeded/<name>/.
set -uo pipefail
prop="$1"; seed="$2"; name="${3:-$prop-$(basename "$seed")}"
cd /verif && . ./env.sh
scratch=$(mktemp -d /var/tmp/verif-seed.XXXXXX)
rsync -a --exclude .git /repo/ "$scratch/"
demo_dir=$(cat "$seed/demo_dir.txt" | tr -d '\n ')
cp "$seed"/zz_seed_demo_test.go "$scratch/$demo_dir/"
run_demo() { (cd "$scratch/$demo_dir" && timeout 600 $REPO_GO test -vet=off -count=1 -run 'Seed|seed|Demo' . 2>&1 | tail -3); }
echo "== demo on original:"; orig=$(run_demo); echo "$orig" | tail -1
if ! (cd "$scratch" && patch -p1 -s < "$seed/patch.diff"); then echo "PATCH DOES NOT APPLY"; rm -rf "$scratch"; exit 1; fi
echo "== demo with change:"; mut=$(run_demo); echo "$mut" | tail -1
echo "== build with change:"; (cd "$scratch" && $REPO_GO build ./... 2>&1 | tail -2; echo "build exit $?")
rm -f "$scratch/$demo_dir/zz_seed_demo_test.go"
echo "== check quick $prop against the change:"
out=$(VERIF_REPO="$scratch" ./check quick "$prop" -no-evidence 2>&1); code=$?
echo "$out" | grep -E '^(VIOLATION|UNDECIDED)' | head -5 | cut -c1-220
echo "$out" | tail -1 | cut -c1-200
echo "exit=$code"
rm -rf "$scratch"
mkdir -p "seeded/$name"
cp "$seed/patch.diff" "$seed/zz_seed_demo_test.go" "$seed/demo_dir.txt" "seeded/$name/"
python3 - "$seed/meta.json" "seeded/$name/meta.json" "$prop" "$code" "$(echo "$orig" | tail -1)" "$(echo "$mut" | tail -1)" "$(echo "$out" | grep -E '^VIOLATION' | head -3)" <<'PY'
import json,sys
src,dst,prop,code,orig,mut,viol=sys.argv[1:8]
try: m=json.load(open(src))
except Exception: m={}
m.update({"property":prop,"confirmed_by_me":{"demo_on_original":orig,"demo_with_change":mut,"check_exit":int(code),"check_violations":viol.splitlines()},
          "caught":int(code)==1})
json.dump(m,open(dst,'w'),indent=1)
PY
