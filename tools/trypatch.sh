#!/bin/bash
# trypatch.sh <property> <patch> [base repo dir] [extra check args] : apply a patch to a scratch copy of the base
# (default /var/tmp/dev-repo) and run the property's quick check against it with the dev engine.
prop="$1"; patch="$2"; base="${3:-/var/tmp/dev-repo}"; shift; shift; shift || true
cd /verif && . ./env.sh && export PATH="$(dirname "$ENGINE_GO"):$PATH"
eng=/var/tmp/govc-det; [ -x $eng ] || eng=build/bin/govc
scratch=$(mktemp -d /var/tmp/verif-scratch.XXXXXX)
rsync -a --exclude .git "$base/" "$scratch/"
(cd "$scratch" && patch -p1 -s < "$patch") || { echo "patch does not apply"; rm -rf "$scratch"; exit 1; }
$eng check -prop "$prop" -tier quick -repo "$scratch" -verif /verif -no-evidence "$@" 2>&1 | grep -E "^(VIOLATION|UNDECIDED|property)" | cut -c1-260 | head -8
rm -rf "$scratch"
