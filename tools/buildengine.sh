#!/bin/bash
# usage: tools/buildengine.sh [output]   (default build/bin/govc)
cd "$(dirname "$0")/.." && . ./env.sh && cd engine && $ENGINE_GO build -o "${1:-../build/bin/govc}" ./cmd/govc && echo built
