// Assumed (trusted) contracts of standard-library and third-party functions used by the code
// under contract. Every use is counted and listed in the evidence as part of the trusted base.
// Comment-only file: it is parsed by govc, never compiled.
package prelude

//@ package path

//@ func Clean
//@   trusted
//@   pure

//@ func Dir
//@   trusted
//@   pure

//@ func IsAbs
//@   trusted
//@   pure

//@ func Join
//@   trusted
//@   pure

//@ package fmt

//@ func Errorf
//@   trusted
//@   modifies nothing
//@   ensures result != nil

//@ package errors

//@ func New
//@   trusted
//@   modifies nothing
//@   ensures result != nil

//@ package strings

//@ func Replace
//@   trusted
//@   pure
//@   ensures n < 0 ==> result == strreplaceall(s, old, new)

//@ func Contains
//@   trusted
//@   pure
//@   ensures result == strcontains(s, substr)

//@ func ToUpper
//@   trusted
//@   pure

//@ func TrimPrefix
//@   trusted
//@   pure

//@ package github.com/golang-jwt/jwt/v4

//@ func Parse
//@   trusted
//@   modifies nothing
//@   ensures result1 == nil ==> result0 != nil

//@ package github.com/influxdata/influxql

//@ func ParseQuery
//@   trusted
//@   modifies nothing
//@   ensures result1 == nil ==> result0 != nil
//@   ensures result1 == nil ==> forall i int :: 0 <= i && i < len(result0.Statements) ==>
//@       (typeis(result0.Statements[i], *SelectStatement) ==> as(result0.Statements[i], *SelectStatement) != nil)

//@ package github.com/pkg/errors

//@ func New
//@   trusted
//@   modifies nothing
//@   ensures result != nil

//@ func Wrap
//@   trusted
//@   modifies nothing
//@   ensures err != nil ==> result != nil

//@ func Wrapf
//@   trusted
//@   modifies nothing
//@   ensures (err != nil) == (result != nil)

//@ package io

// io.Reader: 0 <= n <= len(p); the bytes land in p (frame: only p's elements).
//@ func (Reader).Read
//@   trusted
//@   modifies elems(p)
//@   ensures 0 <= n && n <= len(p)

//@ func (Writer).Write
//@   trusted
//@   modifies nothing
//@   ensures 0 <= n && n <= len(p)

//@ package encoding/binary

//@ func ReadUvarint
//@   trusted
//@   modifies nothing

// PutUvarint panics when the buffer is too small for the value.
//@ func PutUvarint
//@   trusted
//@   requires (len(buf) >= 10) || (len(buf) == 5 && x < 34359738368) || (len(buf) == 9 && x < 9223372036854775808)
//@   modifies elems(buf)
//@   ensures 1 <= result && result <= len(buf)

//@ package google.golang.org/protobuf/proto

// protobuf refuses messages of 2 GiB and more.
//@ func Marshal
//@   trusted
//@   modifies nothing
//@   ensures result1 == nil ==> len(result0) < 2147483648

//@ func Unmarshal
//@   trusted
//@   modifies nothing

//@ package strings

// strings.Builder: its accumulated text is the specification-only field `content`.
//@ ghost (strings.Builder) content string

//@ func (*Builder).WriteString
//@   trusted
//@   modifies gf(b, content, string)
//@   ensures gf(b, content, string) == old(gf(b, content, string)) + s && result1 == nil

//@ func (*Builder).WriteRune
//@   trusted
//@   modifies gf(b, content, string)
//@   ensures 0 <= r && r < 128 ==> gf(b, content, string) == old(gf(b, content, string)) + chr(int(r))
//@   ensures result1 == nil

//@ func (*Builder).Grow
//@   trusted
//@   modifies nothing

//@ func (*Builder).String
//@   trusted
//@   modifies nothing
//@   ensures result == gf(b, content, string)

//@ package unicode/utf8

// DecodeRuneInString: empty input -> (RuneError, 0); otherwise 1..4 bytes, never more than the
// input holds; an ASCII result is always one byte wide.
//@ func DecodeRuneInString
//@   trusted
//@   pure
//@   ensures len(s) == 0 ==> result1 == 0
//@   ensures len(s) > 0 ==> 1 <= result1 && result1 <= 4 && result1 <= len(s)
//@   ensures 0 <= result0 && (result0 < 128 && result1 > 0 ==> result1 == 1)

//@ package regexp

// Matching is a function of the compiled regex object and the text (a compiled regex is immutable).
//@ func (*Regexp).MatchString
//@   trusted
//@   pure
//@   requires re != nil

//@ package reflect

// TypeOf(nil) is the nil Type.
//@ func TypeOf
//@   trusted
//@   pure
//@   ensures (i != nil) == (result != nil)
//@ func (Type).Kind
//@   trusted
//@   pure
// Interface panics on the zero Value ("reflect: call of reflect.Value.Interface on zero Value");
// the zero Value is the one whose flag word is 0 (reflect.Value.IsValid).
//@ func (Value).Interface
//@   trusted
//@   requires v.flag != 0
//@   modifies nothing

//@ package runtime

//@ func Stack
//@   trusted
//@   modifies elems(buf)
//@   ensures 0 <= result && result <= len(buf)

//@ package bytes

// bytes.Buffer used as a write-then-read-all scratch buffer: its unread text is the
// specification-only field `content` (reads that consume are not modelled).
//@ ghost (bytes.Buffer) content string

//@ func (*Buffer).WriteString
//@   trusted
//@   modifies gf(b, content, string)
//@   ensures gf(b, content, string) == old(gf(b, content, string)) + s && result1 == nil
//@ func (*Buffer).Reset
//@   trusted
//@   modifies gf(b, content, string)
//@   ensures gf(b, content, string) == ""
//@ func (*Buffer).Bytes
//@   trusted
//@   modifies nothing
//@   ensures str(result) == gf(b, content, string)

//@ package bytes
//@ func (*Buffer).Len
//@   trusted
//@   modifies nothing
//@ func (*Buffer).String
//@   trusted
//@   modifies nothing
//@   ensures result == gf(b, content, string)
//@ func (*Buffer).Truncate
//@   trusted
//@   modifies gf(b, content, string)
//@   ensures n == 0 ==> gf(b, content, string) == ""

//@ package strings
//@ func LastIndexByte
//@   trusted
//@   pure
//@   ensures -1 <= result && result < len(s)
//@ func IndexByte
//@   trusted
//@   pure
//@   ensures -1 <= result && result < len(s)
