// Assumed contracts for package time. time.Time is modelled as an integer count of nanoseconds
// since the zero Time (monotonic readings, locations and saturation of Sub are dropped):
// Round/Truncate are relative to the zero time, as documented.
package prelude

//@ package time

//@ func (Time).Add
//@   trusted
//@   pure
//@   ensures result == t + time.Time(d)

//@ func (Time).Sub
//@   trusted
//@   pure
//@   ensures time.Time(result) == t - u

//@ func (Time).IsZero
//@   trusted
//@   pure
//@   ensures result == (t == time.Time(0))

//@ func (Time).After
//@   trusted
//@   pure
//@   ensures result == (t > u)

//@ func (Time).Before
//@   trusted
//@   pure
//@   ensures result == (t < u)

//@ func (Time).Equal
//@   trusted
//@   pure
//@   ensures result == (t == u)

//@ func (Time).Local
//@   trusted
//@   pure
//@   ensures result == t

//@ func (Time).UTC
//@   trusted
//@   pure
//@   ensures result == t

//@ func (Time).Truncate
//@   trusted
//@   pure
//@   ensures d <= 0 ==> result == t
//@   ensures d > 0 ==> result == t - emod(t, time.Time(d))

//@ func (Time).Round
//@   trusted
//@   pure
//@   ensures d <= 0 ==> result == t
//@   ensures d > 0 && 2 * emod(t, time.Time(d)) < time.Time(d) ==> result == t - emod(t, time.Time(d))
//@   ensures d > 0 && 2 * emod(t, time.Time(d)) >= time.Time(d) ==> result == t - emod(t, time.Time(d)) + time.Time(d)

//@ func (Time).UnixNano
//@   trusted
//@   pure

//@ func Now
//@   trusted
//@   modifies nothing

// 62135596800 s between the zero Time and the Unix epoch.
//@ func Unix
//@   trusted
//@   pure
//@   ensures result == time.Time(62135596800000000000 + sec * 1000000000 + nsec)

//@ func (Time).Unix
//@   trusted
//@   pure
//@   ensures result == ediv(int64(t) - 62135596800000000000, 1000000000)
