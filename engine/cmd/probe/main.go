package main

import (
	"fmt"
	"os"
	"go/types"

	"golang.org/x/tools/go/packages"
	"golang.org/x/tools/go/ssa"
	"golang.org/x/tools/go/ssa/ssautil"
)

func main() {
	cfg := &packages.Config{Mode: packages.LoadAllSyntax, Dir: os.Args[1], BuildFlags: []string{"-tags=verif"}}
	pkgs, err := packages.Load(cfg, os.Args[2])
	if err != nil {
		panic(err)
	}
	packages.PrintErrors(pkgs)
	prog, spkgs := ssautil.Packages(pkgs, ssa.NaiveForm|ssa.GlobalDebug|ssa.BuildSerially)
	_ = prog
	for _, p := range spkgs {
		p.Build()
		for _, m := range p.Members {
			if f, ok := m.(*ssa.Function); ok && (len(os.Args) < 4 || f.Name() == os.Args[3]) {
				f.WriteTo(os.Stdout)
			}
			if t, ok := m.(*ssa.Type); ok {
				if n, ok := t.Type().(*types.Named); ok {
					for i := 0; i < n.NumMethods(); i++ {
						f := prog.FuncValue(n.Method(i))
						if f != nil && len(os.Args) >= 4 && f.Name() == os.Args[3] {
							f.WriteTo(os.Stdout)
							for _, a := range f.AnonFuncs {
								a.WriteTo(os.Stdout)
							}
						}
					}
				}
			}
		}
	}
	fmt.Println("done")
}
