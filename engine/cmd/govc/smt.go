package main

// Hash-consed SMT term DAG with light simplification and SMT-LIB printing.

import (
	"fmt"
	"math/big"
	"sort"
	"strconv"
	"strings"
)

type Term struct {
	Op    string // "int","bool","str","var","bvar","app","forall","exists"
	Name  string // literal text / symbol
	Args  []*Term
	Sort  string
	Binds []*Term // for quantifiers: bound variables
	id    int
	open  bool // contains bound variables
}

type TermCtx struct {
	tab   map[string]*Term
	n     int
	decls map[string]string // symbol -> SMT declaration text
	order []string          // declaration order
	fresh int
	deps  map[string][]string // symbol -> symbols its declaration text mentions
	// datatype / sort declarations that must precede everything
	sortDecls []string
	condDecls [][2]string // (symbol, axiom text): emitted only when the symbol occurs in the query
}

func NewTermCtx() *TermCtx {
	return &TermCtx{tab: map[string]*Term{}, decls: map[string]string{}, deps: map[string][]string{}}
}

var TC = NewTermCtx()

func (c *TermCtx) intern(t *Term) *Term {
	var sb strings.Builder
	sb.WriteString(t.Op)
	sb.WriteByte('|')
	sb.WriteString(t.Name)
	sb.WriteByte('|')
	sb.WriteString(t.Sort)
	for _, a := range t.Args {
		sb.WriteByte(',')
		sb.WriteString(strconv.Itoa(a.id))
	}
	for _, a := range t.Binds {
		sb.WriteByte(';')
		sb.WriteString(strconv.Itoa(a.id))
	}
	k := sb.String()
	if o, ok := c.tab[k]; ok {
		return o
	}
	c.n++
	t.id = c.n
	for _, a := range t.Args {
		if a.open {
			t.open = true
		}
	}
	if t.Op == "bvar" {
		t.open = true
	}
	c.tab[k] = t
	return t
}

func (c *TermCtx) Declare(name, decl string) {
	if _, ok := c.decls[name]; !ok {
		c.decls[name] = decl
		c.order = append(c.order, name)
	}
}

func smtSym(s string) string {
	ok := true
	for _, r := range s {
		if !(r >= 'a' && r <= 'z' || r >= 'A' && r <= 'Z' || r >= '0' && r <= '9' || strings.ContainsRune("_.$@!-", r)) {
			ok = false
			break
		}
	}
	if ok && s != "" {
		return s
	}
	return "|" + strings.NewReplacer("|", "!", "\\", "!").Replace(s) + "|"
}

// ---- constructors ----

func Var(name, sort string) *Term {
	name = smtSym(name)
	TC.Declare(name, fmt.Sprintf("(declare-fun %s () %s)", name, sort))
	return TC.intern(&Term{Op: "var", Name: name, Sort: sort})
}

func Fresh(prefix, sort string) *Term {
	TC.fresh++
	return Var(fmt.Sprintf("%s!%d", prefix, TC.fresh), sort)
}

func BVar(name, sort string) *Term {
	return TC.intern(&Term{Op: "bvar", Name: smtSym(name), Sort: sort})
}

func IntLit(v int64) *Term { return BigLit(big.NewInt(v)) }

func BigLit(v *big.Int) *Term {
	return TC.intern(&Term{Op: "int", Name: v.String(), Sort: "Int"})
}

func (t *Term) IsInt() (*big.Int, bool) {
	if t.Op == "int" {
		b, _ := new(big.Int).SetString(t.Name, 10)
		return b, true
	}
	return nil, false
}

var True, False *Term

func BoolLit(b bool) *Term {
	if b {
		return True
	}
	return False
}

func StrLit(s string) *Term {
	if StrSort != "String" {
		return ufStrLit(s)
	}
	return TC.intern(&Term{Op: "str", Name: s, Sort: "String"})
}

// App builds an application of an interpreted or declared symbol without simplification.
func App(name, sort string, args ...*Term) *Term {
	// IEEE addition and multiplication are commutative: one canonical argument order
	if (name == "fadd" || name == "fmul") && len(args) == 2 && args[0].id > args[1].id {
		args = []*Term{args[1], args[0]}
	}
	return TC.intern(&Term{Op: "app", Name: name, Args: args, Sort: sort})
}

// UF declares (once) and applies an uninterpreted function.
func UF(name, sort string, args ...*Term) *Term {
	name = smtSym(name)
	if _, ok := TC.decls[name]; !ok {
		var as []string
		for _, a := range args {
			as = append(as, a.Sort)
		}
		TC.Declare(name, fmt.Sprintf("(declare-fun %s (%s) %s)", name, strings.Join(as, " "), sort))
	}
	return App(name, sort, args...)
}

func Not(a *Term) *Term {
	switch {
	case a == True:
		return False
	case a == False:
		return True
	case a.Op == "app" && a.Name == "not":
		return a.Args[0]
	case a.Op == "app" && a.Name == "=>" && (a.Args[0].Op == "forall" || a.Args[0].Op == "exists"):
		// expose quantified hypotheses of a negated implication to the instantiation step
		return And(a.Args[0], Not(a.Args[1]))
	case a.Op == "app" && a.Name == "=>" && endsInExists(a.Args[1]):
		// a negated goal "h ==> exists x :: P" becomes "h && forall x :: !P": the universal fact is
		// then instantiated like any other (witness candidates from the ground terms)
		return And(a.Args[0], Not(a.Args[1]))
	case a.Op == "forall":
		return Exists(a.Binds, Not(a.Args[0]))
	case a.Op == "exists":
		return Forall(a.Binds, Not(a.Args[0]))
	}
	return App("not", "Bool", a)
}

func endsInExists(t *Term) bool {
	if t.Op == "exists" {
		return true
	}
	if t.Op == "app" && t.Name == "=>" {
		return endsInExists(t.Args[1])
	}
	return false
}

func And(as ...*Term) *Term {
	var out []*Term
	seen := map[int]bool{}
	for _, a := range as {
		if a == False {
			return False
		}
		if a == True || seen[a.id] {
			continue
		}
		if a.Op == "app" && a.Name == "and" {
			for _, b := range a.Args {
				if !seen[b.id] {
					seen[b.id] = true
					out = append(out, b)
				}
			}
			continue
		}
		seen[a.id] = true
		out = append(out, a)
	}
	for _, a := range out {
		if seen[Not(a).id] && Not(a).id != a.id {
			// a and not a
			if _, ok := seen[Not(a).id]; ok {
				return False
			}
		}
	}
	if len(out) == 0 {
		return True
	}
	if len(out) == 1 {
		return out[0]
	}
	return App("and", "Bool", out...)
}

func Or(as ...*Term) *Term {
	var out []*Term
	seen := map[int]bool{}
	for _, a := range as {
		if a == True {
			return True
		}
		if a == False || seen[a.id] {
			continue
		}
		if a.Op == "app" && a.Name == "or" {
			for _, b := range a.Args {
				if !seen[b.id] {
					seen[b.id] = true
					out = append(out, b)
				}
			}
			continue
		}
		seen[a.id] = true
		out = append(out, a)
	}
	for _, a := range out {
		if seen[Not(a).id] {
			return True
		}
	}
	if len(out) == 0 {
		return False
	}
	if len(out) == 1 {
		return out[0]
	}
	return App("or", "Bool", out...)
}

func Imp(a, b *Term) *Term {
	if a == True {
		return b
	}
	if a == False || b == True {
		return True
	}
	if b == False {
		return Not(a)
	}
	if a == b {
		return True
	}
	return App("=>", "Bool", a, b)
}

func Ite(c, a, b *Term) *Term {
	if c == True {
		return a
	}
	if c == False {
		return b
	}
	if a == b {
		return a
	}
	if a.Sort == "Bool" {
		if a == True && b == False {
			return c
		}
		if a == False && b == True {
			return Not(c)
		}
	}
	// simplify the branches under the knowledge of c (through nested ite nodes only)
	a2, b2 := restrictIte(a, c, true, 0), restrictIte(b, c, false, 0)
	if a2 != a || b2 != b {
		return Ite(c, a2, b2)
	}
	return App("ite", a.Sort, c, a, b)
}

// restrictIte removes tests of condition c (known to be val) from a tree of ite nodes.
func restrictIte(t, c *Term, val bool, depth int) *Term {
	if t.Op != "app" || t.Name != "ite" || depth > 12 {
		return t
	}
	if t.Args[0] == c {
		if val {
			return restrictIte(t.Args[1], c, val, depth+1)
		}
		return restrictIte(t.Args[2], c, val, depth+1)
	}
	x, y := restrictIte(t.Args[1], c, val, depth+1), restrictIte(t.Args[2], c, val, depth+1)
	if x == t.Args[1] && y == t.Args[2] {
		return t
	}
	return Ite(t.Args[0], x, y)
}

func isCtorApp(t *Term) bool {
	return t.Op == "app" && (strings.HasPrefix(t.Name, "mk") || t.Name == "pnil" || t.Name == "pfld" || t.Name == "pidx")
}

// distinctLits reports whether two terms are syntactically known to differ.
func knownDistinct(a, b *Term) bool {
	if a == b {
		return false
	}
	if (a.Op == "int" && b.Op == "int") || (a.Op == "str" && b.Op == "str") || (a.Op == "bool" && b.Op == "bool") {
		return a.Name != b.Name
	}
	if isCtorApp(a) && isCtorApp(b) {
		if a.Name != b.Name {
			return true
		}
		for i := range a.Args {
			if knownDistinct(a.Args[i], b.Args[i]) {
				return true
			}
		}
	}
	return false
}

func Eq(a, b *Term) *Term {
	if a == b {
		return True
	}
	if knownDistinct(a, b) {
		return False
	}
	if a.Sort != b.Sort {
		panic(fmt.Sprintf("Eq sort mismatch: %s : %s  vs  %s : %s", a, a.Sort, b, b.Sort))
	}
	if a.Sort == "Bool" {
		if a == True {
			return b
		}
		if b == True {
			return a
		}
		if a == False {
			return Not(b)
		}
		if b == False {
			return Not(a)
		}
	}
	if isCtorApp(a) && isCtorApp(b) && a.Name == b.Name {
		var cs []*Term
		for i := range a.Args {
			cs = append(cs, Eq(a.Args[i], b.Args[i]))
		}
		return And(cs...)
	}
	if a.id > b.id {
		a, b = b, a
	}
	return App("=", "Bool", a, b)
}

func Neq(a, b *Term) *Term { return Not(Eq(a, b)) }

// Linear normal form: every Int term built by + - and multiplication by a constant is kept as a
// canonical sum  (+ c1*a1 ... cn*an k)  with the atoms ordered by id, so that syntactically
// different spellings of the same linear expression are the same term.
type linForm struct {
	coef map[int]*big.Int
	atom map[int]*Term
	k    *big.Int
}

func newLin() *linForm {
	return &linForm{coef: map[int]*big.Int{}, atom: map[int]*Term{}, k: new(big.Int)}
}

func (l *linForm) addTerm(t *Term, c *big.Int) {
	if c.Sign() == 0 {
		return
	}
	if v, ok := t.IsInt(); ok {
		l.k.Add(l.k, new(big.Int).Mul(v, c))
		return
	}
	if t.Op == "app" && t.Sort == "Int" {
		switch t.Name {
		case "+":
			for _, a := range t.Args {
				l.addTerm(a, c)
			}
			return
		case "-":
			if len(t.Args) == 2 {
				l.addTerm(t.Args[0], c)
				l.addTerm(t.Args[1], new(big.Int).Neg(c))
				return
			}
			if len(t.Args) == 1 {
				l.addTerm(t.Args[0], new(big.Int).Neg(c))
				return
			}
		case "*":
			if len(t.Args) == 2 {
				if v, ok := t.Args[0].IsInt(); ok {
					l.addTerm(t.Args[1], new(big.Int).Mul(c, v))
					return
				}
				if v, ok := t.Args[1].IsInt(); ok {
					l.addTerm(t.Args[0], new(big.Int).Mul(c, v))
					return
				}
			}
		}
	}
	if o, ok := l.coef[t.id]; ok {
		o.Add(o, c)
		if o.Sign() == 0 {
			delete(l.coef, t.id)
			delete(l.atom, t.id)
		}
		return
	}
	l.coef[t.id] = new(big.Int).Set(c)
	l.atom[t.id] = t
}

func (l *linForm) build() *Term {
	if len(l.coef) == 0 {
		return BigLit(l.k)
	}
	ids := make([]int, 0, len(l.coef))
	for id := range l.coef {
		ids = append(ids, id)
	}
	sort.Ints(ids)
	var pos, neg []*Term
	one := big.NewInt(1)
	for _, id := range ids {
		c, a := l.coef[id], l.atom[id]
		abs := new(big.Int).Abs(c)
		t := a
		if abs.Cmp(one) != 0 {
			t = App("*", "Int", BigLit(abs), a)
		}
		if c.Sign() > 0 {
			pos = append(pos, t)
		} else {
			neg = append(neg, t)
		}
	}
	if l.k.Sign() > 0 {
		pos = append(pos, BigLit(l.k))
	} else if l.k.Sign() < 0 {
		neg = append(neg, BigLit(new(big.Int).Neg(l.k)))
	}
	sum := func(ts []*Term) *Term {
		if len(ts) == 1 {
			return ts[0]
		}
		return App("+", "Int", ts...)
	}
	switch {
	case len(pos) == 0 && len(neg) == 0:
		return IntLit(0)
	case len(neg) == 0:
		return sum(pos)
	case len(pos) == 0:
		return App("-", "Int", IntLit(0), sum(neg))
	}
	return App("-", "Int", sum(pos), sum(neg))
}

func arith(op string, a, b *Term) *Term {
	if op == "*" {
		x, ok1 := a.IsInt()
		y, ok2 := b.IsInt()
		if ok1 && ok2 {
			return BigLit(new(big.Int).Mul(x, y))
		}
		if ok1 || ok2 {
			l := newLin()
			if ok1 {
				l.addTerm(b, x)
			} else {
				l.addTerm(a, y)
			}
			return l.build()
		}
		return App("*", "Int", a, b)
	}
	l := newLin()
	l.addTerm(a, big.NewInt(1))
	if op == "+" {
		l.addTerm(b, big.NewInt(1))
	} else {
		l.addTerm(b, big.NewInt(-1))
	}
	return l.build()
}

func Add(a, b *Term) *Term { return arith("+", a, b) }
func Sub(a, b *Term) *Term { return arith("-", a, b) }
func Mul(a, b *Term) *Term { return arith("*", a, b) }
func Neg(a *Term) *Term    { return Sub(IntLit(0), a) }

func cmp(op string, a, b *Term) *Term {
	x, ok1 := a.IsInt()
	y, ok2 := b.IsInt()
	if ok1 && ok2 {
		c := x.Cmp(y)
		switch op {
		case "<":
			return BoolLit(c < 0)
		case "<=":
			return BoolLit(c <= 0)
		case ">":
			return BoolLit(c > 0)
		case ">=":
			return BoolLit(c >= 0)
		}
	}
	if a == b {
		return BoolLit(op == "<=" || op == ">=")
	}
	// normalise > and >= to < and <=
	switch op {
	case ">":
		return App("<", "Bool", b, a)
	case ">=":
		return App("<=", "Bool", b, a)
	}
	return App(op, "Bool", a, b)
}

func Lt(a, b *Term) *Term { return cmp("<", a, b) }
func Le(a, b *Term) *Term { return cmp("<=", a, b) }
func Gt(a, b *Term) *Term { return cmp(">", a, b) }
func Ge(a, b *Term) *Term { return cmp(">=", a, b) }

// SMT div/mod are Euclidean; Go's are truncated.
func GoDiv(a, b *Term) *Term {
	x, ok1 := a.IsInt()
	y, ok2 := b.IsInt()
	if ok1 && ok2 && y.Sign() != 0 {
		return BigLit(new(big.Int).Quo(x, y))
	}
	if ok2 && y.Sign() > 0 {
		// a >= 0 ? a div b : -((-a) div b)
		return Ite(Ge(a, IntLit(0)), App("div", "Int", a, b), Neg(App("div", "Int", Neg(a), b)))
	}
	abs := func(t *Term) *Term { return Ite(Ge(t, IntLit(0)), t, Neg(t)) }
	q := App("div", "Int", abs(a), abs(b))
	return Ite(Eq(Ge(a, IntLit(0)), Ge(b, IntLit(0))), q, Neg(q))
}

func GoRem(a, b *Term) *Term {
	x, ok1 := a.IsInt()
	y, ok2 := b.IsInt()
	if ok1 && ok2 && y.Sign() != 0 {
		return BigLit(new(big.Int).Rem(x, y))
	}
	abs := func(t *Term) *Term { return Ite(Ge(t, IntLit(0)), t, Neg(t)) }
	if ok2 && y.Sign() > 0 {
		return Ite(Ge(a, IntLit(0)), App("mod", "Int", a, b), Neg(App("mod", "Int", Neg(a), b)))
	}
	r := App("mod", "Int", abs(a), abs(b))
	return Ite(Ge(a, IntLit(0)), r, Neg(r))
}

// EDiv / EMod: Euclidean (floor for positive divisor).
func EDiv(a, b *Term) *Term {
	x, ok1 := a.IsInt()
	y, ok2 := b.IsInt()
	if ok1 && ok2 && y.Sign() > 0 {
		return BigLit(new(big.Int).Div(x, y))
	}
	return App("div", "Int", a, b)
}
func EMod(a, b *Term) *Term {
	x, ok1 := a.IsInt()
	y, ok2 := b.IsInt()
	if ok1 && ok2 && y.Sign() > 0 {
		return BigLit(new(big.Int).Mod(x, y))
	}
	return App("mod", "Int", a, b)
}

func arraySort(idx, elem string) string { return "(Array " + idx + " " + elem + ")" }

func arrayElemSort(s string) string {
	// "(Array I E)" -> E ; I has no nested spaces issues handled by paren matching
	if !strings.HasPrefix(s, "(Array ") {
		panic("not an array sort: " + s)
	}
	body := s[len("(Array ") : len(s)-1]
	depth := 0
	for i := 0; i < len(body); i++ {
		switch body[i] {
		case '(':
			depth++
		case ')':
			depth--
		case ' ':
			if depth == 0 {
				return body[i+1:]
			}
		}
	}
	panic("bad array sort " + s)
}

func Select(a, i *Term) *Term {
	for depth := 0; depth < 64; depth++ {
		if a.Op == "app" && a.Name == "store" {
			if a.Args[1] == i {
				return a.Args[2]
			}
			if knownDistinct(a.Args[1], i) {
				a = a.Args[0]
				continue
			}
		}
		break
	}
	if a.Op == "app" && a.Name == "ite" {
		x, y := Select(a.Args[1], i), Select(a.Args[2], i)
		return Ite(a.Args[0], x, y)
	}
	if i.Op == "app" && i.Name == "ite" && i.Sort == "Loc" {
		return Ite(i.Args[0], Select(a, i.Args[1]), Select(a, i.Args[2]))
	}
	if a.Op == "app" && a.Name == "constarr" {
		return a.Args[0]
	}
	return App("select", arrayElemSort(a.Sort), a, i)
}

func Store(a, i, v *Term) *Term {
	if i.Op == "app" && i.Name == "ite" && i.Sort == "Loc" {
		return Ite(i.Args[0], Store(a, i.Args[1], v), Store(a, i.Args[2], v))
	}
	if a.Op == "app" && a.Name == "ite" && a.Args[1].Op == "app" && a.Args[2].Op == "app" && (a.Args[1].Name == "store" || a.Args[2].Name == "store") && a.Args[1].Name != "ite" && a.Args[2].Name != "ite" {
		return Ite(a.Args[0], Store(a.Args[1], i, v), Store(a.Args[2], i, v))
	}
	if a.Op == "app" && a.Name == "store" && a.Args[1] == i {
		a = a.Args[0]
	}
	if es := arrayElemSort(a.Sort); es != v.Sort {
		panic(fmt.Sprintf("Store sort mismatch: array %s value %s : %s", a.Sort, v, v.Sort))
	}
	return App("store", a.Sort, a, i, v)
}

func ConstArray(sort string, v *Term) *Term {
	return App("constarr", sort, v)
}

func Forall(bs []*Term, body *Term) *Term {
	if body == True || len(bs) == 0 {
		return body
	}
	t := TC.intern(&Term{Op: "forall", Binds: bs, Args: []*Term{body}, Sort: "Bool"})
	t.open = hasFreeBound(t)
	return t
}

func Exists(bs []*Term, body *Term) *Term {
	if body == False || len(bs) == 0 {
		return body
	}
	t := TC.intern(&Term{Op: "exists", Binds: bs, Args: []*Term{body}, Sort: "Bool"})
	t.open = hasFreeBound(t)
	return t
}

func hasFreeBound(t *Term) bool {
	free := map[int]bool{}
	var walk func(t *Term, bound map[int]bool)
	seen := map[int]bool{}
	walk = func(t *Term, bound map[int]bool) {
		if !t.open && t.Op != "forall" && t.Op != "exists" {
			return
		}
		if t.Op == "bvar" {
			if !bound[t.id] {
				free[t.id] = true
			}
			return
		}
		if t.Op == "forall" || t.Op == "exists" {
			nb := map[int]bool{}
			for k := range bound {
				nb[k] = true
			}
			for _, b := range t.Binds {
				nb[b.id] = true
			}
			walk(t.Args[0], nb)
			return
		}
		if len(bound) == 0 {
			if seen[t.id] {
				return
			}
			seen[t.id] = true
		}
		for _, a := range t.Args {
			walk(a, bound)
		}
	}
	walk(t, map[int]bool{})
	return len(free) > 0
}

// Subst replaces variables (by term identity) throughout t.
func Subst(t *Term, m map[*Term]*Term) *Term {
	memo := map[int]*Term{}
	var rec func(t *Term) *Term
	rec = func(t *Term) *Term {
		if r, ok := m[t]; ok {
			return r
		}
		if len(t.Args) == 0 {
			return t
		}
		if r, ok := memo[t.id]; ok {
			return r
		}
		args := make([]*Term, len(t.Args))
		ch := false
		for i, a := range t.Args {
			args[i] = rec(a)
			if args[i] != a {
				ch = true
			}
		}
		var r *Term
		if !ch {
			r = t
		} else if t.Op == "forall" {
			r = Forall(t.Binds, args[0])
		} else if t.Op == "exists" {
			r = Exists(t.Binds, args[0])
		} else {
			r = rebuild(t, args)
		}
		memo[t.id] = r
		return r
	}
	return rec(t)
}

// selectors of datatype constructors: name -> (constructor, field index)
type selInfo struct {
	ctor string
	idx  int
}

var selectorOf = map[string]selInfo{}

func rebuild(t *Term, args []*Term) *Term {
	if si, ok := selectorOf[t.Name]; ok && len(args) == 1 {
		a := args[0]
		if a.Op == "app" && a.Name == si.ctor {
			return a.Args[si.idx]
		}
		if a.Op == "app" && a.Name == "ite" {
			return Ite(a.Args[0], rebuild(t, []*Term{a.Args[1]}), rebuild(t, []*Term{a.Args[2]}))
		}
	}
	switch t.Name {
	case "not":
		return Not(args[0])
	case "and":
		return And(args...)
	case "or":
		return Or(args...)
	case "=>":
		return Imp(args[0], args[1])
	case "ite":
		return Ite(args[0], args[1], args[2])
	case "=":
		return Eq(args[0], args[1])
	case "+", "-", "*":
		if t.Sort == "Int" && len(args) >= 1 {
			if t.Name == "*" && len(args) == 2 {
				return arith("*", args[0], args[1])
			}
			if t.Name != "*" {
				l := newLin()
				for i, a := range args {
					c := big.NewInt(1)
					if t.Name == "-" && (i > 0 || len(args) == 1) {
						c = big.NewInt(-1)
					}
					l.addTerm(a, c)
				}
				return l.build()
			}
		}
	case "<", "<=":
		return cmp(t.Name, args[0], args[1])
	case "select":
		return Select(args[0], args[1])
	case "store":
		return Store(args[0], args[1], args[2])
	}
	return TC.intern(&Term{Op: t.Op, Name: t.Name, Args: args, Sort: t.Sort})
}

// ---- printing ----

func smtString(s string) string {
	var sb strings.Builder
	sb.WriteByte('"')
	for _, b := range []byte(s) {
		switch {
		case b == '"':
			sb.WriteString(`""`)
		case b >= 0x20 && b < 0x7f && b != '\\':
			sb.WriteByte(b)
		default:
			fmt.Fprintf(&sb, "\\u{%x}", b)
		}
	}
	sb.WriteByte('"')
	return sb.String()
}

func (t *Term) String() string {
	var sb strings.Builder
	t.write(&sb, nil)
	return sb.String()
}

func (t *Term) write(sb *strings.Builder, names map[int]string) {
	if names != nil {
		if n, ok := names[t.id]; ok {
			sb.WriteString(n)
			return
		}
	}
	switch t.Op {
	case "int":
		if strings.HasPrefix(t.Name, "-") {
			sb.WriteString("(- " + t.Name[1:] + ")")
		} else {
			sb.WriteString(t.Name)
		}
	case "bool", "var", "bvar":
		sb.WriteString(t.Name)
	case "str":
		sb.WriteString(smtString(t.Name))
	case "forall", "exists":
		sb.WriteString("(" + t.Op + " (")
		for _, b := range t.Binds {
			sb.WriteString("(" + b.Name + " " + b.Sort + ")")
		}
		sb.WriteString(") ")
		t.Args[0].write(sb, names)
		sb.WriteString(")")
	case "app":
		if t.Name == "constarr" {
			sb.WriteString("((as const " + t.Sort + ") ")
			t.Args[0].write(sb, names)
			sb.WriteString(")")
			return
		}
		if len(t.Args) == 0 {
			sb.WriteString(t.Name)
			return
		}
		sb.WriteString("(" + t.Name)
		for _, a := range t.Args {
			sb.WriteByte(' ')
			a.write(sb, names)
		}
		sb.WriteString(")")
	}
}

// Script renders a satisfiability query for the conjunction of asserts.
// Closed shared subterms are hoisted into define-funs to keep the DAG compact.
func Script(asserts []*Term, getValues []*Term, extraDefs []string) string {
	var sb strings.Builder
	// collect nodes, refcounts and symbols
	ref := map[int]int{}
	var order []*Term
	syms := map[string]bool{}
	var visit func(t *Term)
	visit = func(t *Term) {
		ref[t.id]++
		if ref[t.id] > 1 {
			return
		}
		for _, a := range t.Args {
			visit(a)
		}
		if t.Op == "var" || (t.Op == "app") {
			syms[t.Name] = true
		}
		order = append(order, t)
	}
	all := append(append([]*Term{}, asserts...), getValues...)
	for _, a := range all {
		visit(a)
	}
	// close symbol set under declaration dependencies
	for changed := true; changed; {
		changed = false
		for n := range syms {
			for _, d := range TC.deps[n] {
				if !syms[d] {
					syms[d] = true
					changed = true
				}
			}
		}
	}
	for _, d := range TC.sortDecls {
		sb.WriteString(d)
		sb.WriteByte('\n')
	}
	for _, n := range TC.order {
		if syms[n] {
			sb.WriteString(TC.decls[n])
			sb.WriteByte('\n')
		}
	}
	for _, d := range extraDefs {
		sb.WriteString(d)
		sb.WriteByte('\n')
	}
	condAt := sb.Len()
	names := map[int]string{}
	for _, t := range order {
		if t.open || len(t.Args) == 0 || ref[t.id] < 2 {
			continue
		}
		var b strings.Builder
		t.write(&b, names)
		n := "n" + strconv.Itoa(t.id)
		fmt.Fprintf(&sb, "(define-fun %s () %s %s)\n", n, t.Sort, b.String())
		names[t.id] = n
	}
	for _, a := range asserts {
		var b strings.Builder
		a.write(&b, names)
		fmt.Fprintf(&sb, "(assert %s)\n", b.String())
	}
	if len(TC.condDecls) > 0 {
		body := sb.String()[condAt:]
		var cond strings.Builder
		for _, cd := range TC.condDecls {
			if strings.Contains(body, "("+cd[0]+" ") {
				cond.WriteString(cd[1])
				cond.WriteByte('\n')
			}
		}
		full := sb.String()
		sb.Reset()
		sb.WriteString(full[:condAt])
		sb.WriteString(cond.String())
		sb.WriteString(full[condAt:])
	}
	sb.WriteString("(check-sat)\n")
	for i, v := range getValues {
		var b strings.Builder
		v.write(&b, names)
		fmt.Fprintf(&sb, ";IN %d %s %s\n", i, v.Sort, b.String())
	}
	if len(getValues) > 0 {
		sb.WriteString("(get-value (")
		for _, v := range getValues {
			var b strings.Builder
			v.write(&b, names)
			sb.WriteString(b.String())
			sb.WriteByte(' ')
		}
		sb.WriteString("))\n")
	}
	return sb.String()
}

func sortedKeys[V any](m map[string]V) []string {
	ks := make([]string, 0, len(m))
	for k := range m {
		ks = append(ks, k)
	}
	sort.Strings(ks)
	return ks
}
