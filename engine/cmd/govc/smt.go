package main

// Hash-consed SMT term DAG with light simplification and SMT-LIB printing.

import (
	"fmt"
	"math/big"
	"sort"
	"strconv"
	"strings"
)

type Term struct {
	Op    string // "int","bool","str","var","bvar","app","forall","exists"
	Name  string // literal text / symbol
	Args  []*Term
	Sort  string
	Binds []*Term // for quantifiers: bound variables
	id    int
	open  bool // contains bound variables
}

type TermCtx struct {
	tab   map[string]*Term
	n     int
	decls map[string]string // symbol -> SMT declaration text
	order []string          // declaration order
	fresh int
	deps  map[string][]string // symbol -> symbols its declaration text mentions
	// datatype / sort declarations that must precede everything
	sortDecls []string
}

func NewTermCtx() *TermCtx {
	return &TermCtx{tab: map[string]*Term{}, decls: map[string]string{}, deps: map[string][]string{}}
}

var TC = NewTermCtx()

func (c *TermCtx) intern(t *Term) *Term {
	var sb strings.Builder
	sb.WriteString(t.Op)
	sb.WriteByte('|')
	sb.WriteString(t.Name)
	sb.WriteByte('|')
	sb.WriteString(t.Sort)
	for _, a := range t.Args {
		sb.WriteByte(',')
		sb.WriteString(strconv.Itoa(a.id))
	}
	for _, a := range t.Binds {
		sb.WriteByte(';')
		sb.WriteString(strconv.Itoa(a.id))
	}
	k := sb.String()
	if o, ok := c.tab[k]; ok {
		return o
	}
	c.n++
	t.id = c.n
	for _, a := range t.Args {
		if a.open {
			t.open = true
		}
	}
	if t.Op == "bvar" {
		t.open = true
	}
	c.tab[k] = t
	return t
}

func (c *TermCtx) Declare(name, decl string) {
	if _, ok := c.decls[name]; !ok {
		c.decls[name] = decl
		c.order = append(c.order, name)
	}
}

func smtSym(s string) string {
	ok := true
	for _, r := range s {
		if !(r >= 'a' && r <= 'z' || r >= 'A' && r <= 'Z' || r >= '0' && r <= '9' || strings.ContainsRune("_.$@!-", r)) {
			ok = false
			break
		}
	}
	if ok && s != "" {
		return s
	}
	return "|" + strings.NewReplacer("|", "!", "\\", "!").Replace(s) + "|"
}

// ---- constructors ----

func Var(name, sort string) *Term {
	name = smtSym(name)
	TC.Declare(name, fmt.Sprintf("(declare-fun %s () %s)", name, sort))
	return TC.intern(&Term{Op: "var", Name: name, Sort: sort})
}

func Fresh(prefix, sort string) *Term {
	TC.fresh++
	return Var(fmt.Sprintf("%s!%d", prefix, TC.fresh), sort)
}

func BVar(name, sort string) *Term {
	return TC.intern(&Term{Op: "bvar", Name: smtSym(name), Sort: sort})
}

func IntLit(v int64) *Term { return BigLit(big.NewInt(v)) }

func BigLit(v *big.Int) *Term {
	return TC.intern(&Term{Op: "int", Name: v.String(), Sort: "Int"})
}

func (t *Term) IsInt() (*big.Int, bool) {
	if t.Op == "int" {
		b, _ := new(big.Int).SetString(t.Name, 10)
		return b, true
	}
	return nil, false
}

var (
	True  = TC.intern(&Term{Op: "bool", Name: "true", Sort: "Bool"})
	False = TC.intern(&Term{Op: "bool", Name: "false", Sort: "Bool"})
)

func BoolLit(b bool) *Term {
	if b {
		return True
	}
	return False
}

func StrLit(s string) *Term {
	return TC.intern(&Term{Op: "str", Name: s, Sort: "String"})
}

// App builds an application of an interpreted or declared symbol without simplification.
func App(name, sort string, args ...*Term) *Term {
	return TC.intern(&Term{Op: "app", Name: name, Args: args, Sort: sort})
}

// UF declares (once) and applies an uninterpreted function.
func UF(name, sort string, args ...*Term) *Term {
	name = smtSym(name)
	if _, ok := TC.decls[name]; !ok {
		var as []string
		for _, a := range args {
			as = append(as, a.Sort)
		}
		TC.Declare(name, fmt.Sprintf("(declare-fun %s (%s) %s)", name, strings.Join(as, " "), sort))
	}
	return App(name, sort, args...)
}

func Not(a *Term) *Term {
	switch {
	case a == True:
		return False
	case a == False:
		return True
	case a.Op == "app" && a.Name == "not":
		return a.Args[0]
	}
	return App("not", "Bool", a)
}

func And(as ...*Term) *Term {
	var out []*Term
	seen := map[int]bool{}
	for _, a := range as {
		if a == False {
			return False
		}
		if a == True || seen[a.id] {
			continue
		}
		if a.Op == "app" && a.Name == "and" {
			for _, b := range a.Args {
				if !seen[b.id] {
					seen[b.id] = true
					out = append(out, b)
				}
			}
			continue
		}
		seen[a.id] = true
		out = append(out, a)
	}
	for _, a := range out {
		if seen[Not(a).id] && Not(a).id != a.id {
			// a and not a
			if _, ok := seen[Not(a).id]; ok {
				return False
			}
		}
	}
	if len(out) == 0 {
		return True
	}
	if len(out) == 1 {
		return out[0]
	}
	return App("and", "Bool", out...)
}

func Or(as ...*Term) *Term {
	var out []*Term
	seen := map[int]bool{}
	for _, a := range as {
		if a == True {
			return True
		}
		if a == False || seen[a.id] {
			continue
		}
		if a.Op == "app" && a.Name == "or" {
			for _, b := range a.Args {
				if !seen[b.id] {
					seen[b.id] = true
					out = append(out, b)
				}
			}
			continue
		}
		seen[a.id] = true
		out = append(out, a)
	}
	for _, a := range out {
		if seen[Not(a).id] {
			return True
		}
	}
	if len(out) == 0 {
		return False
	}
	if len(out) == 1 {
		return out[0]
	}
	return App("or", "Bool", out...)
}

func Imp(a, b *Term) *Term {
	if a == True {
		return b
	}
	if a == False || b == True {
		return True
	}
	if b == False {
		return Not(a)
	}
	if a == b {
		return True
	}
	return App("=>", "Bool", a, b)
}

func Ite(c, a, b *Term) *Term {
	if c == True {
		return a
	}
	if c == False {
		return b
	}
	if a == b {
		return a
	}
	if a.Sort == "Bool" {
		if a == True && b == False {
			return c
		}
		if a == False && b == True {
			return Not(c)
		}
	}
	// ite(c, x, ite(c, y, z)) = ite(c,x,z)
	if b.Op == "app" && b.Name == "ite" && b.Args[0] == c {
		return Ite(c, a, b.Args[2])
	}
	if a.Op == "app" && a.Name == "ite" && a.Args[0] == c {
		return Ite(c, a.Args[1], b)
	}
	return App("ite", a.Sort, c, a, b)
}

func isCtorApp(t *Term) bool {
	return t.Op == "app" && (strings.HasPrefix(t.Name, "mk") || t.Name == "pnil" || t.Name == "pfld" || t.Name == "pidx")
}

// distinctLits reports whether two terms are syntactically known to differ.
func knownDistinct(a, b *Term) bool {
	if a == b {
		return false
	}
	if (a.Op == "int" && b.Op == "int") || (a.Op == "str" && b.Op == "str") || (a.Op == "bool" && b.Op == "bool") {
		return a.Name != b.Name
	}
	if isCtorApp(a) && isCtorApp(b) {
		if a.Name != b.Name {
			return true
		}
		for i := range a.Args {
			if knownDistinct(a.Args[i], b.Args[i]) {
				return true
			}
		}
	}
	return false
}

func Eq(a, b *Term) *Term {
	if a == b {
		return True
	}
	if knownDistinct(a, b) {
		return False
	}
	if a.Sort != b.Sort {
		panic(fmt.Sprintf("Eq sort mismatch: %s : %s  vs  %s : %s", a, a.Sort, b, b.Sort))
	}
	if a.Sort == "Bool" {
		if a == True {
			return b
		}
		if b == True {
			return a
		}
		if a == False {
			return Not(b)
		}
		if b == False {
			return Not(a)
		}
	}
	if isCtorApp(a) && isCtorApp(b) && a.Name == b.Name {
		var cs []*Term
		for i := range a.Args {
			cs = append(cs, Eq(a.Args[i], b.Args[i]))
		}
		return And(cs...)
	}
	if a.id > b.id {
		a, b = b, a
	}
	return App("=", "Bool", a, b)
}

func Neq(a, b *Term) *Term { return Not(Eq(a, b)) }

func arith(op string, a, b *Term) *Term {
	x, ok1 := a.IsInt()
	y, ok2 := b.IsInt()
	if ok1 && ok2 {
		r := new(big.Int)
		switch op {
		case "+":
			return BigLit(r.Add(x, y))
		case "-":
			return BigLit(r.Sub(x, y))
		case "*":
			return BigLit(r.Mul(x, y))
		}
	}
	switch op {
	case "+":
		if ok1 && x.Sign() == 0 {
			return b
		}
		if ok2 && y.Sign() == 0 {
			return a
		}
		// (x + c1) + c2
		if ok2 && a.Op == "app" && a.Name == "+" && len(a.Args) == 2 {
			if c1, ok := a.Args[1].IsInt(); ok {
				return arith("+", a.Args[0], BigLit(new(big.Int).Add(c1, y)))
			}
		}
	case "-":
		if ok2 && y.Sign() == 0 {
			return a
		}
		if a == b {
			return IntLit(0)
		}
		if ok2 {
			return arith("+", a, BigLit(new(big.Int).Neg(y)))
		}
	case "*":
		if ok1 && x.Sign() == 0 || ok2 && y.Sign() == 0 {
			return IntLit(0)
		}
		if ok1 && x.Cmp(big.NewInt(1)) == 0 {
			return b
		}
		if ok2 && y.Cmp(big.NewInt(1)) == 0 {
			return a
		}
	}
	return App(op, "Int", a, b)
}

func Add(a, b *Term) *Term { return arith("+", a, b) }
func Sub(a, b *Term) *Term { return arith("-", a, b) }
func Mul(a, b *Term) *Term { return arith("*", a, b) }
func Neg(a *Term) *Term    { return Sub(IntLit(0), a) }

func cmp(op string, a, b *Term) *Term {
	x, ok1 := a.IsInt()
	y, ok2 := b.IsInt()
	if ok1 && ok2 {
		c := x.Cmp(y)
		switch op {
		case "<":
			return BoolLit(c < 0)
		case "<=":
			return BoolLit(c <= 0)
		case ">":
			return BoolLit(c > 0)
		case ">=":
			return BoolLit(c >= 0)
		}
	}
	if a == b {
		return BoolLit(op == "<=" || op == ">=")
	}
	// normalise > and >= to < and <=
	switch op {
	case ">":
		return App("<", "Bool", b, a)
	case ">=":
		return App("<=", "Bool", b, a)
	}
	return App(op, "Bool", a, b)
}

func Lt(a, b *Term) *Term { return cmp("<", a, b) }
func Le(a, b *Term) *Term { return cmp("<=", a, b) }
func Gt(a, b *Term) *Term { return cmp(">", a, b) }
func Ge(a, b *Term) *Term { return cmp(">=", a, b) }

// SMT div/mod are Euclidean; Go's are truncated.
func GoDiv(a, b *Term) *Term {
	x, ok1 := a.IsInt()
	y, ok2 := b.IsInt()
	if ok1 && ok2 && y.Sign() != 0 {
		return BigLit(new(big.Int).Quo(x, y))
	}
	if ok2 && y.Sign() > 0 {
		// a >= 0 ? a div b : -((-a) div b)
		return Ite(Ge(a, IntLit(0)), App("div", "Int", a, b), Neg(App("div", "Int", Neg(a), b)))
	}
	abs := func(t *Term) *Term { return Ite(Ge(t, IntLit(0)), t, Neg(t)) }
	q := App("div", "Int", abs(a), abs(b))
	return Ite(Eq(Ge(a, IntLit(0)), Ge(b, IntLit(0))), q, Neg(q))
}

func GoRem(a, b *Term) *Term {
	x, ok1 := a.IsInt()
	y, ok2 := b.IsInt()
	if ok1 && ok2 && y.Sign() != 0 {
		return BigLit(new(big.Int).Rem(x, y))
	}
	abs := func(t *Term) *Term { return Ite(Ge(t, IntLit(0)), t, Neg(t)) }
	if ok2 && y.Sign() > 0 {
		return Ite(Ge(a, IntLit(0)), App("mod", "Int", a, b), Neg(App("mod", "Int", Neg(a), b)))
	}
	r := App("mod", "Int", abs(a), abs(b))
	return Ite(Ge(a, IntLit(0)), r, Neg(r))
}

// EDiv / EMod: Euclidean (floor for positive divisor).
func EDiv(a, b *Term) *Term {
	x, ok1 := a.IsInt()
	y, ok2 := b.IsInt()
	if ok1 && ok2 && y.Sign() > 0 {
		return BigLit(new(big.Int).Div(x, y))
	}
	return App("div", "Int", a, b)
}
func EMod(a, b *Term) *Term {
	x, ok1 := a.IsInt()
	y, ok2 := b.IsInt()
	if ok1 && ok2 && y.Sign() > 0 {
		return BigLit(new(big.Int).Mod(x, y))
	}
	return App("mod", "Int", a, b)
}

func arraySort(idx, elem string) string { return "(Array " + idx + " " + elem + ")" }

func arrayElemSort(s string) string {
	// "(Array I E)" -> E ; I has no nested spaces issues handled by paren matching
	if !strings.HasPrefix(s, "(Array ") {
		panic("not an array sort: " + s)
	}
	body := s[len("(Array ") : len(s)-1]
	depth := 0
	for i := 0; i < len(body); i++ {
		switch body[i] {
		case '(':
			depth++
		case ')':
			depth--
		case ' ':
			if depth == 0 {
				return body[i+1:]
			}
		}
	}
	panic("bad array sort " + s)
}

func Select(a, i *Term) *Term {
	for depth := 0; depth < 64; depth++ {
		if a.Op == "app" && a.Name == "store" {
			if a.Args[1] == i {
				return a.Args[2]
			}
			if knownDistinct(a.Args[1], i) {
				a = a.Args[0]
				continue
			}
		}
		break
	}
	if a.Op == "app" && a.Name == "ite" {
		x, y := Select(a.Args[1], i), Select(a.Args[2], i)
		return Ite(a.Args[0], x, y)
	}
	if a.Op == "app" && a.Name == "constarr" {
		return a.Args[0]
	}
	return App("select", arrayElemSort(a.Sort), a, i)
}

func Store(a, i, v *Term) *Term {
	if a.Op == "app" && a.Name == "store" && a.Args[1] == i {
		a = a.Args[0]
	}
	if es := arrayElemSort(a.Sort); es != v.Sort {
		panic(fmt.Sprintf("Store sort mismatch: array %s value %s : %s", a.Sort, v, v.Sort))
	}
	return App("store", a.Sort, a, i, v)
}

func ConstArray(sort string, v *Term) *Term {
	return App("constarr", sort, v)
}

func Forall(bs []*Term, body *Term) *Term {
	if body == True || len(bs) == 0 {
		return body
	}
	t := TC.intern(&Term{Op: "forall", Binds: bs, Args: []*Term{body}, Sort: "Bool"})
	t.open = hasFreeBound(t)
	return t
}

func Exists(bs []*Term, body *Term) *Term {
	if body == False || len(bs) == 0 {
		return body
	}
	t := TC.intern(&Term{Op: "exists", Binds: bs, Args: []*Term{body}, Sort: "Bool"})
	t.open = hasFreeBound(t)
	return t
}

func hasFreeBound(t *Term) bool {
	free := map[int]bool{}
	var walk func(t *Term, bound map[int]bool)
	seen := map[int]bool{}
	walk = func(t *Term, bound map[int]bool) {
		if !t.open && t.Op != "forall" && t.Op != "exists" {
			return
		}
		if t.Op == "bvar" {
			if !bound[t.id] {
				free[t.id] = true
			}
			return
		}
		if t.Op == "forall" || t.Op == "exists" {
			nb := map[int]bool{}
			for k := range bound {
				nb[k] = true
			}
			for _, b := range t.Binds {
				nb[b.id] = true
			}
			walk(t.Args[0], nb)
			return
		}
		if len(bound) == 0 {
			if seen[t.id] {
				return
			}
			seen[t.id] = true
		}
		for _, a := range t.Args {
			walk(a, bound)
		}
	}
	walk(t, map[int]bool{})
	return len(free) > 0
}

// Subst replaces variables (by term identity) throughout t.
func Subst(t *Term, m map[*Term]*Term) *Term {
	memo := map[int]*Term{}
	var rec func(t *Term) *Term
	rec = func(t *Term) *Term {
		if r, ok := m[t]; ok {
			return r
		}
		if len(t.Args) == 0 {
			return t
		}
		if r, ok := memo[t.id]; ok {
			return r
		}
		args := make([]*Term, len(t.Args))
		ch := false
		for i, a := range t.Args {
			args[i] = rec(a)
			if args[i] != a {
				ch = true
			}
		}
		var r *Term
		if !ch {
			r = t
		} else if t.Op == "forall" {
			r = Forall(t.Binds, args[0])
		} else if t.Op == "exists" {
			r = Exists(t.Binds, args[0])
		} else {
			r = rebuild(t, args)
		}
		memo[t.id] = r
		return r
	}
	return rec(t)
}

func rebuild(t *Term, args []*Term) *Term {
	switch t.Name {
	case "not":
		return Not(args[0])
	case "and":
		return And(args...)
	case "or":
		return Or(args...)
	case "=>":
		return Imp(args[0], args[1])
	case "ite":
		return Ite(args[0], args[1], args[2])
	case "=":
		return Eq(args[0], args[1])
	case "+", "-", "*":
		if len(args) == 2 {
			return arith(t.Name, args[0], args[1])
		}
	case "<", "<=":
		return cmp(t.Name, args[0], args[1])
	case "select":
		return Select(args[0], args[1])
	case "store":
		return Store(args[0], args[1], args[2])
	}
	return TC.intern(&Term{Op: t.Op, Name: t.Name, Args: args, Sort: t.Sort})
}

// ---- printing ----

func smtString(s string) string {
	var sb strings.Builder
	sb.WriteByte('"')
	for _, b := range []byte(s) {
		switch {
		case b == '"':
			sb.WriteString(`""`)
		case b >= 0x20 && b < 0x7f && b != '\\':
			sb.WriteByte(b)
		default:
			fmt.Fprintf(&sb, "\\u{%x}", b)
		}
	}
	sb.WriteByte('"')
	return sb.String()
}

func (t *Term) String() string {
	var sb strings.Builder
	t.write(&sb, nil)
	return sb.String()
}

func (t *Term) write(sb *strings.Builder, names map[int]string) {
	if names != nil {
		if n, ok := names[t.id]; ok {
			sb.WriteString(n)
			return
		}
	}
	switch t.Op {
	case "int":
		if strings.HasPrefix(t.Name, "-") {
			sb.WriteString("(- " + t.Name[1:] + ")")
		} else {
			sb.WriteString(t.Name)
		}
	case "bool", "var", "bvar":
		sb.WriteString(t.Name)
	case "str":
		sb.WriteString(smtString(t.Name))
	case "forall", "exists":
		sb.WriteString("(" + t.Op + " (")
		for _, b := range t.Binds {
			sb.WriteString("(" + b.Name + " " + b.Sort + ")")
		}
		sb.WriteString(") ")
		t.Args[0].write(sb, names)
		sb.WriteString(")")
	case "app":
		if t.Name == "constarr" {
			sb.WriteString("((as const " + t.Sort + ") ")
			t.Args[0].write(sb, names)
			sb.WriteString(")")
			return
		}
		if len(t.Args) == 0 {
			sb.WriteString(t.Name)
			return
		}
		sb.WriteString("(" + t.Name)
		for _, a := range t.Args {
			sb.WriteByte(' ')
			a.write(sb, names)
		}
		sb.WriteString(")")
	}
}

// Script renders a satisfiability query for the conjunction of asserts.
// Closed shared subterms are hoisted into define-funs to keep the DAG compact.
func Script(asserts []*Term, getValues []*Term, extraDefs []string) string {
	var sb strings.Builder
	// collect nodes, refcounts and symbols
	ref := map[int]int{}
	var order []*Term
	syms := map[string]bool{}
	var visit func(t *Term)
	visit = func(t *Term) {
		ref[t.id]++
		if ref[t.id] > 1 {
			return
		}
		for _, a := range t.Args {
			visit(a)
		}
		if t.Op == "var" || (t.Op == "app") {
			syms[t.Name] = true
		}
		order = append(order, t)
	}
	all := append(append([]*Term{}, asserts...), getValues...)
	for _, a := range all {
		visit(a)
	}
	// close symbol set under declaration dependencies
	for changed := true; changed; {
		changed = false
		for n := range syms {
			for _, d := range TC.deps[n] {
				if !syms[d] {
					syms[d] = true
					changed = true
				}
			}
		}
	}
	for _, d := range TC.sortDecls {
		sb.WriteString(d)
		sb.WriteByte('\n')
	}
	for _, n := range TC.order {
		if syms[n] {
			sb.WriteString(TC.decls[n])
			sb.WriteByte('\n')
		}
	}
	for _, d := range extraDefs {
		sb.WriteString(d)
		sb.WriteByte('\n')
	}
	names := map[int]string{}
	for _, t := range order {
		if t.open || len(t.Args) == 0 || ref[t.id] < 2 {
			continue
		}
		var b strings.Builder
		t.write(&b, names)
		n := "n" + strconv.Itoa(t.id)
		fmt.Fprintf(&sb, "(define-fun %s () %s %s)\n", n, t.Sort, b.String())
		names[t.id] = n
	}
	for _, a := range asserts {
		var b strings.Builder
		a.write(&b, names)
		fmt.Fprintf(&sb, "(assert %s)\n", b.String())
	}
	sb.WriteString("(check-sat)\n")
	if len(getValues) > 0 {
		sb.WriteString("(get-value (")
		for _, v := range getValues {
			var b strings.Builder
			v.write(&b, names)
			sb.WriteString(b.String())
			sb.WriteByte(' ')
		}
		sb.WriteString("))\n")
	}
	return sb.String()
}

func sortedKeys[V any](m map[string]V) []string {
	ks := make([]string, 0, len(m))
	for k := range m {
		ks = append(ks, k)
	}
	sort.Strings(ks)
	return ks
}
