package main

// Pratt parser for contract expressions (Go expression syntax plus ==>, <==>, forall/exists, old()).

import (
	"fmt"
	"strings"
)

type SBind struct{ Name, Type string }

type SExpr struct {
	Kind  string // id int float str char un bin call sel idx slice quant conv
	Op    string
	Name  string
	Args  []*SExpr
	Binds []SBind
	Type  string // for conv: target type text
}

func (e *SExpr) String() string {
	switch e.Kind {
	case "id", "int", "float":
		return e.Name
	case "str":
		return fmt.Sprintf("%q", e.Name)
	case "char":
		return fmt.Sprintf("%q", rune(e.Name[0]))
	case "un":
		return e.Op + e.Args[0].String()
	case "bin":
		return "(" + e.Args[0].String() + " " + e.Op + " " + e.Args[1].String() + ")"
	case "call":
		var as []string
		for _, a := range e.Args[1:] {
			as = append(as, a.String())
		}
		return e.Args[0].String() + "(" + strings.Join(as, ", ") + ")"
	case "sel":
		return e.Args[0].String() + "." + e.Name
	case "idx":
		return e.Args[0].String() + "[" + e.Args[1].String() + "]"
	case "slice":
		s := e.Args[0].String() + "["
		if e.Args[1] != nil {
			s += e.Args[1].String()
		}
		s += ":"
		if e.Args[2] != nil {
			s += e.Args[2].String()
		}
		return s + "]"
	case "quant":
		var bs []string
		for _, b := range e.Binds {
			bs = append(bs, b.Name+" "+b.Type)
		}
		return "(" + e.Op + " " + strings.Join(bs, ", ") + " :: " + e.Args[0].String() + ")"
	case "conv":
		return e.Type + "(" + e.Args[0].String() + ")"
	}
	return "?"
}

type stok struct {
	kind string // id num str char op eof
	text string
	pos  int
}

func lexSpec(s string) ([]stok, error) {
	var out []stok
	i := 0
	ops := []string{"<==>", "==>", "&&", "||", "==", "!=", "<=", ">=", "<<", ">>", "&^", "::", "..."}
	for i < len(s) {
		c := s[i]
		switch {
		case c == ' ' || c == '\t' || c == '\n':
			i++
		case c >= '0' && c <= '9':
			j := i
			for j < len(s) && (s[j] >= '0' && s[j] <= '9' || s[j] == '.' && j+1 < len(s) && s[j+1] >= '0' && s[j+1] <= '9' || s[j] == '_' || s[j] == 'x' || (s[j] >= 'a' && s[j] <= 'f' && strings.HasPrefix(s[i:], "0x")) || s[j] == 'e' && !strings.HasPrefix(s[i:], "0x")) {
				j++
			}
			out = append(out, stok{"num", s[i:j], i})
			i = j
		case c == '_' || c >= 'a' && c <= 'z' || c >= 'A' && c <= 'Z':
			j := i
			for j < len(s) && (s[j] == '_' || s[j] >= 'a' && s[j] <= 'z' || s[j] >= 'A' && s[j] <= 'Z' || s[j] >= '0' && s[j] <= '9') {
				j++
			}
			out = append(out, stok{"id", s[i:j], i})
			i = j
		case c == '"':
			j := i + 1
			var sb strings.Builder
			for j < len(s) && s[j] != '"' {
				if s[j] == '\\' && j+1 < len(s) {
					j++
					switch s[j] {
					case 'n':
						sb.WriteByte('\n')
					case 't':
						sb.WriteByte('\t')
					case 'r':
						sb.WriteByte('\r')
					default:
						sb.WriteByte(s[j])
					}
				} else {
					sb.WriteByte(s[j])
				}
				j++
			}
			if j >= len(s) {
				return nil, fmt.Errorf("unterminated string at %d", i)
			}
			out = append(out, stok{"str", sb.String(), i})
			i = j + 1
		case c == '\'':
			j := i + 1
			var ch byte
			if j < len(s) && s[j] == '\\' && j+1 < len(s) {
				j++
				switch s[j] {
				case 'n':
					ch = '\n'
				case 't':
					ch = '\t'
				case 'r':
					ch = '\r'
				default:
					ch = s[j]
				}
			} else if j < len(s) {
				ch = s[j]
			}
			j++
			if j >= len(s) || s[j] != '\'' {
				return nil, fmt.Errorf("bad char literal at %d", i)
			}
			out = append(out, stok{"char", string([]byte{ch}), i})
			i = j + 1
		default:
			matched := false
			for _, op := range ops {
				if strings.HasPrefix(s[i:], op) {
					out = append(out, stok{"op", op, i})
					i += len(op)
					matched = true
					break
				}
			}
			if !matched {
				out = append(out, stok{"op", string(c), i})
				i++
			}
		}
	}
	out = append(out, stok{"eof", "", len(s)})
	return out, nil
}

type sparser struct {
	toks []stok
	p    int
	src  string
}

func ParseSpec(s string) (e *SExpr, err error) {
	toks, err := lexSpec(s)
	if err != nil {
		return nil, err
	}
	ps := &sparser{toks: toks, src: s}
	defer func() {
		if r := recover(); r != nil {
			if pe, ok := r.(parseErr); ok {
				err = fmt.Errorf("%s", string(pe))
				return
			}
			panic(r)
		}
	}()
	e = ps.expr(0)
	if ps.peek().kind != "eof" {
		ps.fail("unexpected %q", ps.peek().text)
	}
	return e, nil
}

type parseErr string

func (p *sparser) fail(f string, a ...interface{}) {
	panic(parseErr(fmt.Sprintf("parse error at col %d: ", p.peek().pos) + fmt.Sprintf(f, a...)))
}
func (p *sparser) peek() stok { return p.toks[p.p] }
func (p *sparser) next() stok { t := p.toks[p.p]; p.p++; return t }
func (p *sparser) isOp(s string) bool {
	t := p.peek()
	return t.kind == "op" && t.text == s
}
func (p *sparser) expect(s string) {
	if !p.isOp(s) {
		p.fail("expected %q, got %q", s, p.peek().text)
	}
	p.next()
}

var binPrec = map[string]int{
	"<==>": 1, "==>": 2, "||": 3, "&&": 4,
	"==": 5, "!=": 5, "<": 5, "<=": 5, ">": 5, ">=": 5,
	"+": 6, "-": 6, "|": 6, "^": 6,
	"*": 7, "/": 7, "%": 7, "<<": 7, ">>": 7, "&": 7, "&^": 7,
}

func (p *sparser) expr(min int) *SExpr {
	lhs := p.unary()
	for {
		t := p.peek()
		if t.kind != "op" {
			return lhs
		}
		pr, ok := binPrec[t.text]
		if !ok || pr < min {
			return lhs
		}
		p.next()
		var rhs *SExpr
		if t.text == "==>" {
			rhs = p.expr(pr) // right assoc
		} else {
			rhs = p.expr(pr + 1)
		}
		lhs = &SExpr{Kind: "bin", Op: t.text, Args: []*SExpr{lhs, rhs}}
	}
}

func (p *sparser) unary() *SExpr {
	t := p.peek()
	if t.kind == "op" && (t.text == "!" || t.text == "-" || t.text == "^" || t.text == "*" || t.text == "&") {
		p.next()
		return &SExpr{Kind: "un", Op: t.text, Args: []*SExpr{p.unary()}}
	}
	return p.postfix(p.primary())
}

// typeText parses a Go type expression and returns its source text.
func (p *sparser) typeText() string {
	start := p.peek().pos
	p.skipType()
	end := p.peek().pos
	return strings.TrimSpace(p.src[start:end])
}

func (p *sparser) skipType() {
	t := p.peek()
	switch {
	case t.kind == "op" && t.text == "*":
		p.next()
		p.skipType()
	case t.kind == "op" && t.text == "[":
		p.next()
		for !p.isOp("]") {
			p.next()
		}
		p.next()
		p.skipType()
	case t.kind == "id" && t.text == "map":
		p.next()
		p.expect("[")
		p.skipType()
		p.expect("]")
		p.skipType()
	case t.kind == "id":
		p.next()
		if p.isOp(".") {
			p.next()
			p.next()
		}
	default:
		p.fail("bad type at %q", t.text)
	}
}

func (p *sparser) primary() *SExpr {
	t := p.next()
	switch t.kind {
	case "num":
		if strings.ContainsAny(t.text, ".e") && !strings.HasPrefix(t.text, "0x") {
			return &SExpr{Kind: "float", Name: t.text}
		}
		return &SExpr{Kind: "int", Name: strings.ReplaceAll(t.text, "_", "")}
	case "str":
		return &SExpr{Kind: "str", Name: t.text}
	case "char":
		return &SExpr{Kind: "char", Name: t.text}
	case "id":
		if t.text == "forall" || t.text == "exists" {
			q := &SExpr{Kind: "quant", Op: t.text}
			for {
				n := p.next()
				if n.kind != "id" {
					p.fail("binder name expected")
				}
				ty := p.typeText()
				q.Binds = append(q.Binds, SBind{n.text, ty})
				if p.isOp(",") {
					p.next()
					continue
				}
				break
			}
			p.expect("::")
			q.Args = []*SExpr{p.expr(0)}
			return q
		}
		return &SExpr{Kind: "id", Name: t.text}
	case "op":
		switch t.text {
		case "(":
			// (*T)(x) / (T)(x) conversions are not supported; plain parens only
			e := p.expr(0)
			p.expect(")")
			return e
		case "[":
			// []T(x) conversion
			p.p--
			ty := p.typeText()
			p.expect("(")
			e := p.expr(0)
			p.expect(")")
			return &SExpr{Kind: "conv", Type: ty, Args: []*SExpr{e}}
		}
	}
	p.p--
	p.fail("unexpected %q", t.text)
	return nil
}

func (p *sparser) postfix(e *SExpr) *SExpr {
	for {
		switch {
		case p.isOp("."):
			p.next()
			n := p.next()
			if n.kind != "id" {
				p.fail("field name expected")
			}
			e = &SExpr{Kind: "sel", Name: n.text, Args: []*SExpr{e}}
		case p.isOp("("):
			p.next()
			c := &SExpr{Kind: "call", Args: []*SExpr{e}}
			for !p.isOp(")") {
				c.Args = append(c.Args, p.expr(0))
				if p.isOp(",") {
					p.next()
				}
			}
			p.next()
			e = c
		case p.isOp("["):
			p.next()
			var lo, hi *SExpr
			if !p.isOp(":") {
				lo = p.expr(0)
			}
			if p.isOp(":") {
				p.next()
				if !p.isOp("]") {
					hi = p.expr(0)
				}
				p.expect("]")
				e = &SExpr{Kind: "slice", Args: []*SExpr{e, lo, hi}}
			} else {
				p.expect("]")
				e = &SExpr{Kind: "idx", Args: []*SExpr{e, lo}}
			}
		case p.isOp("{") && (e.Kind == "id" || (e.Kind == "sel" && e.Args[0].Kind == "id")):
			// composite literal of a struct type: T{f: e, ...}
			p.next()
			c := &SExpr{Kind: "complit", Args: []*SExpr{e}}
			for !p.isOp("}") {
				n := p.next()
				if n.kind != "id" {
					p.fail("field name expected in composite literal")
				}
				if !p.isOp(":") {
					p.fail("':' expected in composite literal")
				}
				p.next()
				c.Binds = append(c.Binds, SBind{Name: n.text})
				c.Args = append(c.Args, p.expr(0))
				if p.isOp(",") {
					p.next()
				}
			}
			p.next()
			e = c
		default:
			return e
		}
	}
}
