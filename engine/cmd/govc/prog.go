package main

// Loading of the real packages (go/packages + go/ssa naive form with debug refs) and lookup
// of functions by contract key.

import (
	"bufio"
	"fmt"
	"go/token"
	"go/types"
	"os"
	"path/filepath"
	"regexp"
	"sort"
	"strings"

	"golang.org/x/tools/go/packages"
	"golang.org/x/tools/go/ssa"
	"golang.org/x/tools/go/ssa/ssautil"
)

type Prog struct {
	repo         string
	verif        string
	fset         *token.FileSet
	pkgs         []*packages.Package
	prog         *ssa.Program
	byPath       map[string]*packages.Package
	cs           *ContractSet
	fnByKey      map[string]*ssa.Function
	constGlobals map[string]*constGlobal
	epochs       int
	effFree      []string
	modClasses   map[string]map[string]string
	modPath      string
	allTypes     []*types.Package
}

func (p *Prog) allTypesPkgs() []*types.Package { return p.allTypes }

func (p *Prog) typesPkg(path string) *types.Package {
	if pk, ok := p.byPath[path]; ok {
		return pk.Types
	}
	return nil
}

func (p *Prog) effectiveKey(key string) string { return key }

// effectFree: calls that the engine treats as not touching modelled memory although they have
// no contract (diagnostics, statistics, formatting, locks). Listed in the evidence assumptions.
func (p *Prog) effectFree(key string) bool {
	// diagnostic interfaces (logging) never touch modelled memory
	if strings.Contains(key, "Diagnostic).") || strings.Contains(key, "diagnostic).") {
		return true
	}
	for _, pat := range p.effFree {
		if strings.HasSuffix(pat, "*") {
			if strings.HasPrefix(key, pat[:len(pat)-1]) {
				return true
			}
		} else if key == pat {
			return true
		}
	}
	return false
}

func (p *Prog) loadEffectFree() {
	f, err := os.Open(filepath.Join(p.verif, "prelude", "effectfree.txt"))
	if err != nil {
		return
	}
	defer f.Close()
	sc := bufio.NewScanner(f)
	for sc.Scan() {
		l := strings.TrimSpace(sc.Text())
		if l == "" || strings.HasPrefix(l, "#") {
			continue
		}
		p.effFree = append(p.effFree, l)
	}
}

func readModulePath(repo string) string {
	data, err := os.ReadFile(filepath.Join(repo, "go.mod"))
	if err != nil {
		return ""
	}
	for _, l := range strings.Split(string(data), "\n") {
		if strings.HasPrefix(l, "module ") {
			return strings.TrimSpace(l[len("module "):])
		}
	}
	return ""
}

func LoadProg(repo, verif string, pkgPaths []string, cs *ContractSet) (*Prog, error) {
	p := &Prog{repo: repo, verif: verif, byPath: map[string]*packages.Package{}, cs: cs, fnByKey: map[string]*ssa.Function{}, modClasses: map[string]map[string]string{}}
	p.modPath = readModulePath(repo)
	p.loadEffectFree()
	cfg := &packages.Config{
		Mode:       packages.LoadAllSyntax,
		Dir:        repo,
		BuildFlags: []string{"-tags=verif"},
		Env:        os.Environ(),
	}
	pkgs, err := packages.Load(cfg, pkgPaths...)
	if err != nil {
		return nil, err
	}
	var errs []string
	packages.Visit(pkgs, nil, func(pk *packages.Package) {
		p.byPath[pk.PkgPath] = pk
		if pk.Types != nil {
			p.allTypes = append(p.allTypes, pk.Types)
		}
		if strings.HasPrefix(pk.PkgPath, p.modPath) {
			for _, e := range pk.Errors {
				errs = append(errs, e.Error())
			}
		}
	})
	if len(errs) > 0 {
		return nil, fmt.Errorf("package errors:\n  %s", strings.Join(errs, "\n  "))
	}
	p.pkgs = pkgs
	if len(pkgs) > 0 {
		p.fset = pkgs[0].Fset
	}
	prog, spkgs := ssautil.Packages(pkgs, ssa.NaiveForm|ssa.GlobalDebug|ssa.BuildSerially)
	p.prog = prog
	for _, sp := range spkgs {
		if sp == nil {
			continue
		}
		sp.Build()
		p.indexPackage(sp)
	}
	// sweeps: an instance of the template contract for every matching function without a contract
	for _, sw := range cs.Sweeps {
		re, err := regexp.Compile(sw.Pattern)
		if err != nil {
			return nil, fmt.Errorf("%s:%d: sweep pattern: %v", sw.Con.File, sw.Con.Line, err)
		}
		var ks []string
		for k, f := range p.fnByKey {
			if f.Pkg == nil || f.Pkg.Pkg.Path() != sw.PkgPath || len(f.Blocks) == 0 || f.Synthetic != "" {
				continue
			}
			if _, has := cs.Funcs[k]; has {
				continue
			}
			short := strings.Replace(k, sw.PkgPath+".", "", 1)
			if re.MatchString(short) {
				ks = append(ks, k)
			}
		}
		sort.Strings(ks)
		for _, k := range ks {
			c := *sw.Con
			c.Key = strings.Replace(k, sw.PkgPath+".", "", 1)
			c.Swept = true
			cs.Funcs[k] = &c
		}
	}
	// table-entry contracts name their function literal by position
	if len(cs.TablePos) > 0 {
		byPos := map[string]*ssa.Function{}
		for _, f := range p.fnByKey {
			if f.Parent() == nil || f.Pkg == nil || !f.Pos().IsValid() {
				continue
			}
			ps := p.fset.Position(f.Pos())
			byPos[fmt.Sprintf("%s|%s:%d:%d", f.Pkg.Pkg.Path(), filepath.Base(ps.Filename), ps.Line, ps.Column)] = f
		}
		for fk, pos := range cs.TablePos {
			c := cs.Funcs[fk]
			if c == nil {
				continue
			}
			if f, ok := byPos[c.PkgPath+"|"+pos]; ok {
				p.fnByKey[fk] = f
			}
		}
	}
	return p, nil
}

func (p *Prog) indexFn(f *ssa.Function) {
	if f == nil {
		return
	}
	k := fnKey(f)
	if _, ok := p.fnByKey[k]; ok {
		return
	}
	p.fnByKey[k] = f
	for _, a := range f.AnonFuncs {
		p.indexFn(a)
	}
}

func (p *Prog) indexPackage(sp *ssa.Package) {
	names := make([]string, 0, len(sp.Members))
	for n := range sp.Members {
		names = append(names, n)
	}
	sort.Strings(names)
	for _, n := range names {
		switch m := sp.Members[n].(type) {
		case *ssa.Function:
			p.indexFn(m)
		case *ssa.Type:
			if nt, ok := m.Type().(*types.Named); ok {
				for i := 0; i < nt.NumMethods(); i++ {
					p.indexFn(p.prog.FuncValue(nt.Method(i)))
				}
			}
		}
	}
}

// pkgPathOfDir maps a directory under the repo to its import path.
func pkgPathOfDir(repo, modPath string) func(dir string) string {
	return func(dir string) string {
		rel, err := filepath.Rel(repo, dir)
		if err != nil || rel == "." {
			return modPath
		}
		return modPath + "/" + filepath.ToSlash(rel)
	}
}
