package main

// Go strings: either the SMT-LIB String theory ("seq" mode, for functions whose contracts are
// about string contents) or an uninterpreted sort with a few axiomatised operations ("uf" mode,
// the default: strings are opaque keys compared by equality and order, which keeps quantified
// map/slice invariants within reach of the solvers).

import (
	"encoding/hex"
	"fmt"
)

var StrSort = "Str"

func setStringMode(seq bool) {
	if seq {
		StrSort = "String"
	} else {
		StrSort = "Str"
		TC.sortDecls = append(TC.sortDecls, "(declare-sort Str 0)")
	}
}

var ufLits map[string]*Term

func ufStrLit(s string) *Term {
	if t, ok := ufLits[s]; ok {
		return t
	}
	name := "strlit!" + hex.EncodeToString([]byte(s))
	if len(name) > 80 {
		name = fmt.Sprintf("strlit!%d!%s", len(ufLits), hex.EncodeToString([]byte(s))[:40])
	}
	t := Var(name, "Str")
	AddAxiom(name, Eq(App("slen", "Int", t), IntLit(int64(len(s)))))
	declStrFuns()
	for o, ot := range ufLits {
		if o != s {
			AddAxiom(name, Neq(t, ot))
		}
	}
	if len(s) <= 32 {
		for i := 0; i < len(s); i++ {
			AddAxiom(name, Eq(App("sat", "Int", t, IntLit(int64(i))), IntLit(int64(s[i]))))
		}
	}
	ufLits[s] = t
	return t
}

var strFunsDeclared bool

func declStrFuns() {
	if strFunsDeclared || StrSort == "String" {
		return
	}
	strFunsDeclared = true
	TC.sortDecls = append(TC.sortDecls,
		"(declare-fun slen (Str) Int)",
		"(declare-fun sat (Str Int) Int)",
		"(declare-fun ssub (Str Int Int) Str)",
		"(declare-fun scat (Str Str) Str)",
		"(declare-fun slt (Str Str) Bool)")
	TC.condDecls = append(TC.condDecls,
		[2]string{"slen", "(assert (forall ((s Str)) (! (<= 0 (slen s)) :pattern ((slen s)))))"},
		[2]string{"sat", "(assert (forall ((s Str) (i Int)) (! (and (<= 0 (sat s i)) (< (sat s i) 256)) :pattern ((sat s i)))))"},
		[2]string{"ssub", "(assert (forall ((s Str) (a Int) (b Int)) (! (=> (and (<= 0 a) (<= a b) (<= b (slen s))) (= (slen (ssub s a b)) (- b a))) :pattern ((ssub s a b)))))"},
		[2]string{"ssub", "(assert (forall ((s Str) (a Int) (b Int) (i Int)) (! (=> (and (<= 0 a) (<= a b) (<= b (slen s)) (<= 0 i) (< i (- b a))) (= (sat (ssub s a b) i) (sat s (+ a i)))) :pattern ((sat (ssub s a b) i)))))"},
		[2]string{"scat", "(assert (forall ((a Str) (b Str)) (! (= (slen (scat a b)) (+ (slen a) (slen b))) :pattern ((scat a b)))))"},
		[2]string{"slt", "(assert (forall ((a Str)) (! (not (slt a a)) :pattern ((slt a a)))))"},
		[2]string{"slt", "(assert (forall ((a Str) (b Str)) (! (or (slt a b) (= a b) (slt b a)) :pattern ((slt a b)))))"},
		[2]string{"slt", "(assert (forall ((a Str) (b Str)) (! (not (and (slt a b) (slt b a))) :pattern ((slt a b)))))"},
		[2]string{"slt", "(assert (forall ((a Str) (b Str) (c Str)) (! (=> (and (slt a b) (slt b c)) (slt a c)) :pattern ((slt a b) (slt b c)))))"},
	)
}

func strLen(s *Term) *Term {
	if StrSort == "String" {
		if s.Op == "str" {
			return IntLit(int64(len(s.Name)))
		}
		return App("str.len", "Int", s)
	}
	declStrFuns()
	return App("slen", "Int", s)
}

func strAt(s, i *Term) *Term {
	if StrSort == "String" {
		return App("str.to_code", "Int", App("str.at", "String", s, i))
	}
	declStrFuns()
	return App("sat", "Int", s, i)
}

func strSub(s, lo, hi *Term) *Term {
	if StrSort == "String" {
		return App("str.substr", "String", s, lo, Sub(hi, lo))
	}
	declStrFuns()
	return App("ssub", "Str", s, lo, hi)
}

func strCat(a, b *Term) *Term {
	if StrSort == "String" {
		if a.Op == "str" && a.Name == "" {
			return b
		}
		if b.Op == "str" && b.Name == "" {
			return a
		}
		if a.Op == "str" && b.Op == "str" {
			return StrLit(a.Name + b.Name)
		}
		return App("str.++", "String", a, b)
	}
	declStrFuns()
	return App("scat", "Str", a, b)
}

func strLt(a, b *Term) *Term {
	if StrSort == "String" {
		return App("str.<", "Bool", a, b)
	}
	declStrFuns()
	if a == b {
		return False
	}
	return App("slt", "Bool", a, b)
}

func strLe(a, b *Term) *Term {
	if StrSort == "String" {
		return App("str.<=", "Bool", a, b)
	}
	return Or(strLt(a, b), Eq(a, b))
}

// strOp: operations that only the String theory interprets.
func strOp(name, sort string, args ...*Term) *Term {
	if StrSort == "String" {
		return App(name, sort, args...)
	}
	return UF("uf_"+name, sort, args...)
}
