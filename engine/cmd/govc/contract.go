package main

// Contract files: comment-only Go files (//go:build verif) whose //@ lines carry
// requires/ensures/modifies/loop invariants keyed by function, plus spec functions and lemmas.

import (
	"fmt"
	"os"
	"path/filepath"
	"strconv"
	"strings"
)

type Clause struct {
	Text  string
	File  string
	Line  int
	Label string
	expr  *SExpr
}

func (c *Clause) Expr() (*SExpr, error) {
	if c.expr == nil {
		e, err := ParseSpec(c.Text)
		if err != nil {
			return nil, fmt.Errorf("%s:%d: %v (in %q)", c.File, c.Line, err, c.Text)
		}
		c.expr = e
	}
	return c.expr, nil
}

type LoopSpec struct {
	Ordinal     int
	Invariants  []*Clause
	Transitions []*Clause // two-state: prev(e) is e at the start of the iteration; checked at every back edge
	Decreases   *Clause
	Modifies    []*Clause
	Line        int
}

type Contract struct {
	Key       string // function key relative to PkgPath, or absolute (prelude)
	PkgPath   string
	Props     []string
	Requires  []*Clause
	Ensures   []*Clause
	Modifies  []*Clause
	Covers    []*Clause
	GhostSets []*Clause          // "gf(o, name, T) := expr": ghost assignment performed at every return
	AtLock    []*Clause          // locations other goroutines may have changed whenever this function acquires a lock
	Guards    map[string]*Clause // "name#n" -> condition that must hold when the n-th call through value `name` happens
	Loops     map[int]*LoopSpec
	Pure      bool
	Swept     bool // instance of a sweep template
	Trusted   bool
	MayPanic  bool // explicit panic() calls are part of the contract, not obligations
	NoVerify  bool // contract only used at call sites (body not translated)
	Opts      map[string]string
	File      string
	Line      int
	used      int
}

type SpecParam struct{ Name, Type string }

type SpecFunc struct {
	Name    string
	PkgPath string
	Params  []SpecParam
	Result  string
	Body    *Clause
	Rec     bool
}

type Lemma struct {
	Name    string
	PkgPath string
	Props   []string
	Body    *Clause
	Opts    map[string]string
}

type TypeInv struct {
	Type    string
	PkgPath string
	Self    string
	Body    *Clause
}

type GhostField struct {
	TypeKey, Name, Type, PkgPath string
}

type ContractSet struct {
	Ghosts       []GhostField
	Funcs        map[string]*Contract // full key -> contract
	Specs        map[string]*SpecFunc // pkgpath + "." + name, and bare name for prelude
	Lemmas       []*Lemma
	TypeInvs     []*TypeInv
	Files        []string
	ConstGlobals map[string][]string // package path -> declared constant package variables
	Sweeps       []*Sweep
	TablePos     map[string]string // full key of a table-entry contract -> file:line:col of its function literal
}

// Sweep: an empty contract (safety obligations only: nil, bounds, division, conversions, explicit
// panics) for every function of the package whose key matches and that has no contract of its own.
//
//	//@ sweep <regexp over the short key, e.g. ^\(\*?\w+\)\.Call$>
//	//@   props C05
//	//@   requires ...        (optional clauses, shared by every swept function)
type Sweep struct {
	PkgPath string
	Pattern string
	Con     *Contract // template
}

func NewContractSet() *ContractSet {
	return &ContractSet{Funcs: map[string]*Contract{}, Specs: map[string]*SpecFunc{}, TablePos: map[string]string{}, ConstGlobals: map[string][]string{}}
}

func fullKey(pkgPath, key string) string {
	if strings.HasPrefix(key, "=") {
		return key[1:]
	}
	if pkgPath == "" {
		return key
	}
	// (*T).M -> (*pkg.T).M ; (T).M -> (pkg.T).M ; F -> pkg.F
	if strings.HasPrefix(key, "(*") {
		return "(*" + pkgPath + "." + key[2:]
	}
	if strings.HasPrefix(key, "(") {
		return "(" + pkgPath + "." + key[1:]
	}
	return pkgPath + "." + key
}

var clauseKeywords = map[string]bool{
	"func": true, "spec": true, "lemma": true, "props": true, "requires": true, "ensures": true,
	"modifies": true, "loop": true, "invariant": true, "decreases": true, "pure": true, "trusted": true,
	"maypanic": true, "cover": true, "guardcall": true, "ghost": true, "ghostset": true, "typeinv": true, "opt": true, "noverify": true, "package": true, "rec": true, "constglobal": true, "sweep": true, "transition": true, "atlock": true,
}

// ParseFile reads one contract file. pkgPath is the import path the file belongs to
// ("" for prelude files, whose `package <path>` lines set it).
func (cs *ContractSet) ParseFile(file, pkgPath string) error {
	data, err := os.ReadFile(file)
	if err != nil {
		return err
	}
	cs.Files = append(cs.Files, file)
	var cur *Contract
	var curLoop *LoopSpec
	var last *Clause
	lines := strings.Split(string(data), "\n")
	tablePos := map[string]string{}
	if strings.Contains(string(data), "//@ table ") {
		lines, err = expandTables(file, lines, tablePos)
		if err != nil {
			return err
		}
	}
	for i, raw := range lines {
		ln := i + 1
		t := strings.TrimSpace(raw)
		if !strings.HasPrefix(t, "//@") {
			continue
		}
		t = strings.TrimSpace(t[3:])
		if t == "" {
			continue
		}
		word, rest := t, ""
		if j := strings.IndexAny(t, " \t"); j >= 0 {
			word, rest = t[:j], strings.TrimSpace(t[j+1:])
		}
		if !clauseKeywords[word] {
			if last == nil {
				return fmt.Errorf("%s:%d: continuation line without a clause", file, ln)
			}
			last.Text += " " + t
			continue
		}
		mk := func(text string) *Clause {
			c := &Clause{Text: text, File: file, Line: ln}
			// optional label:  [name] expr
			if strings.HasPrefix(text, "[") {
				if k := strings.Index(text, "]"); k > 0 {
					c.Label = text[1:k]
					c.Text = strings.TrimSpace(text[k+1:])
				}
			}
			last = c
			return c
		}
		switch word {
		case "package":
			pkgPath = rest
			cur, curLoop, last = nil, nil, nil
		case "func":
			cur = &Contract{Key: rest, PkgPath: pkgPath, Loops: map[int]*LoopSpec{}, File: file, Line: ln, Opts: map[string]string{}}
			fk := fullKey(pkgPath, rest)
			if _, dup := cs.Funcs[fk]; dup {
				return fmt.Errorf("%s:%d: duplicate contract for %s", file, ln, fk)
			}
			cs.Funcs[fk] = cur
			if tp, ok := tablePos[rest]; ok {
				cs.TablePos[fk] = tp
			}
			curLoop, last = nil, nil
		case "spec":
			// spec [rec] name(a T, b U) R = expr
			sf, err := parseSpecHeader(rest)
			if err != nil {
				return fmt.Errorf("%s:%d: %v", file, ln, err)
			}
			sf.PkgPath = pkgPath
			sf.Body.File, sf.Body.Line = file, ln
			last = sf.Body
			cs.Specs[pkgPath+"."+sf.Name] = sf
			cur, curLoop = nil, nil
		case "lemma":
			// lemma name [props C01 C02]: expr
			k := strings.Index(rest, ":")
			if k < 0 {
				return fmt.Errorf("%s:%d: lemma needs ':'", file, ln)
			}
			head := strings.Fields(rest[:k])
			lm := &Lemma{Name: head[0], PkgPath: pkgPath, Opts: map[string]string{}}
			for _, h := range head[1:] {
				if h == "seq" {
					lm.Opts["strings"] = "seq"
				} else if h != "props" {
					lm.Props = append(lm.Props, h)
				}
			}
			lm.Body = mk(strings.TrimSpace(rest[k+1:]))
			cs.Lemmas = append(cs.Lemmas, lm)
			cur, curLoop = nil, nil
		case "ghost":
			// ghost (pkg.Type) name type   -- a specification-only field, zero in fresh objects
			f := strings.Fields(rest)
			if len(f) < 3 {
				return fmt.Errorf("%s:%d: ghost needs (Type) name type", file, ln)
			}
			cs.Ghosts = append(cs.Ghosts, GhostField{TypeKey: strings.Trim(f[0], "()"), Name: f[1], Type: strings.Join(f[2:], " "), PkgPath: pkgPath})
			cur, curLoop = nil, nil
		case "sweep":
			cur = &Contract{Key: "sweep:" + rest, PkgPath: pkgPath, Loops: map[int]*LoopSpec{}, File: file, Line: ln, Opts: map[string]string{}}
			cs.Sweeps = append(cs.Sweeps, &Sweep{PkgPath: pkgPath, Pattern: rest, Con: cur})
			curLoop, last = nil, nil
		case "constglobal":
			cs.ConstGlobals[pkgPath] = append(cs.ConstGlobals[pkgPath], strings.Fields(rest)...)
			cur, curLoop = nil, nil
		case "typeinv":
			// typeinv T self: expr
			k := strings.Index(rest, ":")
			head := strings.Fields(rest[:k])
			ti := &TypeInv{Type: head[0], Self: head[1], PkgPath: pkgPath}
			ti.Body = mk(strings.TrimSpace(rest[k+1:]))
			cs.TypeInvs = append(cs.TypeInvs, ti)
			cur, curLoop = nil, nil
		default:
			if cur == nil {
				return fmt.Errorf("%s:%d: clause %q outside a func block", file, ln, word)
			}
			switch word {
			case "props":
				cur.Props = append(cur.Props, strings.Fields(rest)...)
			case "requires":
				cur.Requires = append(cur.Requires, mk(rest))
				curLoop = nil
			case "ensures":
				cur.Ensures = append(cur.Ensures, mk(rest))
				curLoop = nil
			case "modifies":
				if curLoop != nil {
					curLoop.Modifies = append(curLoop.Modifies, mk(rest))
				} else {
					cur.Modifies = append(cur.Modifies, mk(rest))
				}
			case "atlock":
				// atlock modifies <items>: whenever this function acquires a lock, other goroutines may have
				// changed these (lock-protected) locations since the function last looked
				r2 := strings.TrimSpace(rest)
				if !strings.HasPrefix(r2, "modifies ") {
					return fmt.Errorf("%s:%d: atlock needs 'modifies <items>'", file, ln)
				}
				cur.AtLock = append(cur.AtLock, mk(strings.TrimSpace(strings.TrimPrefix(r2, "modifies "))))
			case "cover":
				cur.Covers = append(cur.Covers, mk(rest))
			case "ghostset":
				cur.GhostSets = append(cur.GhostSets, mk(rest))
			case "guardcall":
				// guardcall name#n: expr
				k := strings.Index(rest, ":")
				if k < 0 {
					return fmt.Errorf("%s:%d: guardcall needs ':'", file, ln)
				}
				if cur.Guards == nil {
					cur.Guards = map[string]*Clause{}
				}
				cur.Guards[strings.TrimSpace(rest[:k])] = mk(strings.TrimSpace(rest[k+1:]))
			case "pure":
				cur.Pure = true
			case "trusted":
				cur.Trusted = true
			case "noverify":
				cur.NoVerify = true
			case "maypanic":
				cur.MayPanic = true
			case "opt":
				kv := strings.SplitN(rest, "=", 2)
				if len(kv) == 2 {
					cur.Opts[strings.TrimSpace(kv[0])] = strings.TrimSpace(kv[1])
				} else {
					cur.Opts[strings.TrimSpace(rest)] = "true"
				}
			case "loop":
				f := strings.Fields(rest)
				n, err := strconv.Atoi(f[0])
				if err != nil {
					return fmt.Errorf("%s:%d: loop ordinal: %v", file, ln, err)
				}
				curLoop = &LoopSpec{Ordinal: n, Line: ln}
				cur.Loops[n] = curLoop
			case "invariant":
				if curLoop == nil {
					return fmt.Errorf("%s:%d: invariant outside loop", file, ln)
				}
				curLoop.Invariants = append(curLoop.Invariants, mk(rest))
			case "transition":
				if curLoop == nil {
					return fmt.Errorf("%s:%d: transition outside loop", file, ln)
				}
				curLoop.Transitions = append(curLoop.Transitions, mk(rest))
			case "decreases":
				if curLoop == nil {
					return fmt.Errorf("%s:%d: decreases outside loop", file, ln)
				}
				curLoop.Decreases = mk(rest)
			}
		}
	}
	return nil
}

func parseSpecHeader(s string) (*SpecFunc, error) {
	sf := &SpecFunc{}
	if strings.HasPrefix(s, "rec ") {
		sf.Rec = true
		s = strings.TrimSpace(s[4:])
	}
	lp := strings.Index(s, "(")
	if lp < 0 {
		return nil, fmt.Errorf("spec: missing '('")
	}
	sf.Name = strings.TrimSpace(s[:lp])
	// find matching paren
	depth, rp := 0, -1
	for i := lp; i < len(s); i++ {
		if s[i] == '(' {
			depth++
		} else if s[i] == ')' {
			depth--
			if depth == 0 {
				rp = i
				break
			}
		}
	}
	if rp < 0 {
		return nil, fmt.Errorf("spec: unbalanced parens")
	}
	ps := strings.TrimSpace(s[lp+1 : rp])
	if ps != "" {
		for _, p := range splitTop(ps, ',') {
			f := strings.Fields(strings.TrimSpace(p))
			if len(f) < 2 {
				return nil, fmt.Errorf("spec: parameter %q needs name and type", p)
			}
			sf.Params = append(sf.Params, SpecParam{Name: f[0], Type: strings.Join(f[1:], " ")})
		}
	}
	rest := strings.TrimSpace(s[rp+1:])
	eq := strings.Index(rest, "=")
	if eq < 0 {
		return nil, fmt.Errorf("spec: missing '='")
	}
	sf.Result = strings.TrimSpace(rest[:eq])
	sf.Body = &Clause{Text: strings.TrimSpace(rest[eq+1:])}
	return sf, nil
}

func splitTop(s string, sep byte) []string {
	var out []string
	depth, start := 0, 0
	for i := 0; i < len(s); i++ {
		switch s[i] {
		case '(', '[', '{':
			depth++
		case ')', ']', '}':
			depth--
		default:
			if s[i] == sep && depth == 0 {
				out = append(out, s[start:i])
				start = i + 1
			}
		}
	}
	return append(out, s[start:])
}

// LoadContracts reads every zz_verif_contracts*.go under the repo and every prelude file.
func LoadContracts(repo, preludeDir string, pkgPathOf func(dir string) string) (*ContractSet, error) {
	cs := NewContractSet()
	pre, _ := filepath.Glob(filepath.Join(preludeDir, "*.go"))
	for _, f := range pre {
		if err := cs.ParseFile(f, ""); err != nil {
			return nil, err
		}
	}
	err := filepath.Walk(repo, func(p string, info os.FileInfo, err error) error {
		if err != nil {
			return nil
		}
		if info.IsDir() {
			n := info.Name()
			if n == ".git" || n == "vendor" || n == "node_modules" {
				return filepath.SkipDir
			}
			return nil
		}
		if strings.HasPrefix(info.Name(), "zz_verif_contracts") && strings.HasSuffix(info.Name(), ".go") {
			return cs.ParseFile(p, pkgPathOf(filepath.Dir(p)))
		}
		return nil
	})
	return cs, err
}
