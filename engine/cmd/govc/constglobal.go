package main

// Effectively-constant package-level variables.
//
//	//@ constglobal boolTrueResultContainer boolFalseResultContainer
//
// declares that an unexported package-level variable keeps the value of its initializer. The
// engine checks this mechanically on the current source: in the whole package the variable is
// only read (loads, and field/element addresses that are only loaded from); the only stores are
// those of the synthetic package initializer; its address is never passed on. The initializer
// must be a literal of constants (a struct literal of constants, or a constant), or a sentinel
// error built by errors.New / fmt.Errorf (then only "not nil" is known). For an exported variable
// the scan cannot see other packages: that they do not reassign it is recorded as an assumption. Units that read
// the variable then know its value, also after calls with unknown effects.

import (
	"fmt"
	"go/ast"
	"go/token"
	"go/types"

	"golang.org/x/tools/go/ssa"
)

type constGlobal struct {
	exported bool
	g        *ssa.Global
	init     ast.Expr
	info     *types.Info
	err      string
}

func (p *Prog) constGlobalInfo(pkgPath, name string) *constGlobal {
	key := pkgPath + "." + name
	if c, ok := p.constGlobals[key]; ok {
		return c
	}
	c := &constGlobal{}
	if p.constGlobals == nil {
		p.constGlobals = map[string]*constGlobal{}
	}
	p.constGlobals[key] = c
	pk := p.byPath[pkgPath]
	var sp *ssa.Package
	if pk != nil {
		sp = p.prog.Package(pk.Types)
	}
	if sp == nil {
		c.err = "package not loaded"
		return c
	}
	g, _ := sp.Members[name].(*ssa.Global)
	if g == nil {
		c.err = "no such package-level variable"
		return c
	}
	c.exported = ast.IsExported(name)
	c.g = g
	// the initializer
	for _, f := range pk.Syntax {
		for _, d := range f.Decls {
			gd, ok := d.(*ast.GenDecl)
			if !ok || gd.Tok != token.VAR {
				continue
			}
			for _, s := range gd.Specs {
				vs := s.(*ast.ValueSpec)
				for i, n := range vs.Names {
					if n.Name == name && len(vs.Values) == len(vs.Names) {
						c.init = vs.Values[i]
					}
				}
			}
		}
	}
	c.info = pk.TypesInfo
	if c.init == nil {
		c.err = "no initializer expression"
		return c
	}
	// every use in the package
	var onlyLoaded func(v ssa.Value) string
	onlyLoaded = func(v ssa.Value) string {
		refs := v.Referrers()
		if refs == nil {
			return ""
		}
		for _, r := range *refs {
			switch x := r.(type) {
			case *ssa.UnOp:
				if x.Op != token.MUL {
					return "used by " + x.String()
				}
			case *ssa.FieldAddr:
				if s := onlyLoaded(x); s != "" {
					return s
				}
			case *ssa.IndexAddr:
				if s := onlyLoaded(x); s != "" {
					return s
				}
			case *ssa.DebugRef:
			default:
				return fmt.Sprintf("used by %s at %s", r.String(), p.fset.Position(r.Pos()))
			}
		}
		return ""
	}
	for _, f := range p.fnByKey {
		if f.Pkg != sp || len(f.Blocks) == 0 {
			continue
		}
		isPkgInit := f.Name() == "init" && f.Synthetic != "" && f.Parent() == nil
		for _, b := range f.Blocks {
			for _, ins := range b.Instrs {
				uses := false
				for _, op := range ins.Operands(nil) {
					if op != nil && *op == ssa.Value(g) {
						uses = true
					}
				}
				if !uses || isPkgInit {
					continue
				}
				switch x := ins.(type) {
				case *ssa.UnOp:
					if x.Op == token.MUL {
						continue
					}
				case *ssa.FieldAddr:
					if s := onlyLoaded(x); s == "" {
						continue
					} else {
						c.err = s
						return c
					}
				case *ssa.IndexAddr:
					if s := onlyLoaded(x); s == "" {
						continue
					} else {
						c.err = s
						return c
					}
				case *ssa.DebugRef:
					continue
				}
				c.err = fmt.Sprintf("written or escaping: %s in %s at %s", ins.String(), f.String(), p.fset.Position(ins.Pos()))
				return c
			}
		}
	}
	return c
}

// constExprTerm: the value of a literal of constants, nil when the expression is anything else.
func constExprTerm(info *types.Info, x ast.Expr, t types.Type) *Term {
	x = ast.Unparen(x)
	if tv, ok := info.Types[x]; ok && tv.Value != nil {
		c := ssa.NewConst(tv.Value, t)
		return (&FnExec{}).constVal(c)
	}
	cl, ok := x.(*ast.CompositeLit)
	if !ok {
		return nil
	}
	si := structOf(t)
	if si == nil {
		return nil
	}
	args := make([]*Term, len(si.fields))
	for i := range args {
		args[i] = zeroOf(si.typ.Field(i).Type())
	}
	for i, el := range cl.Elts {
		if kv, ok := el.(*ast.KeyValueExpr); ok {
			id, ok := kv.Key.(*ast.Ident)
			if !ok {
				return nil
			}
			found := false
			for k := 0; k < si.typ.NumFields(); k++ {
				if si.typ.Field(k).Name() == id.Name {
					v := constExprTerm(info, kv.Value, si.typ.Field(k).Type())
					if v == nil {
						return nil
					}
					args[k] = v
					found = true
				}
			}
			if !found {
				return nil
			}
		} else {
			if i >= len(args) {
				return nil
			}
			v := constExprTerm(info, el, si.typ.Field(i).Type())
			if v == nil {
				return nil
			}
			args[i] = v
		}
	}
	return si.Mk(args...)
}

// constGlobalFacts asserts the initializer value of every declared constant global the unit reads.
func (e *FnExec) constGlobalFacts(st *State) {
	if e.fn == nil || e.fn.Pkg == nil {
		return
	}
	if e.constGlobalsUsed == nil {
		e.constGlobalsUsed = []*constGlobal{}
		pkgPath := e.fn.Pkg.Pkg.Path()
		for _, name := range e.P.cs.ConstGlobals[pkgPath] {
			c := e.P.constGlobalInfo(pkgPath, name)
			if c.err != "" {
				e.errf("constglobal %s: %s", name, c.err)
				continue
			}
			used := false
			for _, b := range e.fn.Blocks {
				for _, ins := range b.Instrs {
					for _, op := range ins.Operands(nil) {
						if op != nil && *op == ssa.Value(c.g) {
							used = true
						}
					}
				}
			}
			if used {
				e.constGlobalsUsed = append(e.constGlobalsUsed, c)
			}
		}
	}
	for _, c := range e.constGlobalsUsed {
		et := c.g.Type().(*types.Pointer).Elem()
		if c.exported {
			e.assumed["exported package variable assumed never reassigned by other packages (checked inside its own package): "+c.g.Name()]++
		}
		// a sentinel error: errors.New / fmt.Errorf never return nil
		if call, ok := ast.Unparen(c.init).(*ast.CallExpr); ok {
			if sel, ok := call.Fun.(*ast.SelectorExpr); ok {
				if id, ok := sel.X.(*ast.Ident); ok && ((id.Name == "errors" && sel.Sel.Name == "New") || (id.Name == "fmt" && sel.Sel.Name == "Errorf")) {
					loc := e.val(st, c.g).T
					e.addFact(st, Neq(ITag(e.load(st, loc, et)), IntLit(0)))
					e.assumed["constant package variable (checked: never assigned outside its initializer): "+c.g.Name()]++
					continue
				}
			}
		}
		v := constExprTerm(c.info, c.init, et)
		if v == nil {
			e.errf("constglobal %s: initializer is not a literal of constants", c.g.Name())
			continue
		}
		loc := e.val(st, c.g).T
		e.addFact(st, Eq(e.load(st, loc, et), v))
		e.assumed["constant package variable (checked: never assigned outside its initializer): "+c.g.Name()]++
	}
}
