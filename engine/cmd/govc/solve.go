package main

import (
	"bytes"
	"context"
	"fmt"
	"os"
	"os/exec"
	"path/filepath"
	"regexp"
	"strings"
	"sync"
	"time"
)

type SolverRes struct {
	Result string // unsat sat unknown timeout error
	Solver string
	Ms     int64
	Out    string
}

var workDir string

const smtHeader = "(set-option :produce-models true)\n(set-logic ALL)\n"

func solverCmd(name, file string, timeoutS int) *exec.Cmd {
	switch name {
	case "z3-new":
		return exec.Command("z3-new", "-smt2", fmt.Sprintf("-T:%d", timeoutS), file)
	case "z3":
		return exec.Command("z3", "-smt2", fmt.Sprintf("-T:%d", timeoutS), file)
	case "cvc5":
		return exec.Command("cvc5", "--lang=smt2", fmt.Sprintf("--tlimit=%d", timeoutS*1000), "--strings-exp", file)
	}
	return nil
}

func runSolver(name, file string, timeoutS int) SolverRes {
	start := time.Now()
	ctx, cancel := context.WithTimeout(context.Background(), time.Duration(timeoutS+5)*time.Second)
	defer cancel()
	c := solverCmd(name, file, timeoutS)
	cmd := exec.CommandContext(ctx, c.Path, c.Args[1:]...)
	var out bytes.Buffer
	cmd.Stdout = &out
	cmd.Stderr = &out
	cmd.Run()
	ms := time.Since(start).Milliseconds()
	txt := out.String()
	first := strings.TrimSpace(strings.SplitN(txt, "\n", 2)[0])
	res := "error"
	switch {
	case first == "unsat":
		res = "unsat"
	case first == "sat":
		res = "sat"
	case first == "unknown":
		res = "unknown"
	case strings.Contains(first, "timeout") || ctx.Err() != nil || strings.Contains(txt, "interrupted by timeout"):
		res = "timeout"
	}
	return SolverRes{Result: res, Solver: name, Ms: ms, Out: txt}
}

// symbolsOf returns the declared symbols (constants and uninterpreted functions) in t.
var symCache sync.Map

func symbolsOf(t *Term) map[string]bool {
	if v, ok := symCache.Load(t.id); ok {
		return v.(map[string]bool)
	}
	out := map[string]bool{}
	seen := map[int]bool{}
	var walk func(t *Term)
	walk = func(t *Term) {
		if seen[t.id] {
			return
		}
		seen[t.id] = true
		if t.Op == "var" {
			out[t.Name] = true
		} else if t.Op == "app" {
			if _, ok := TC.decls[t.Name]; ok {
				out[t.Name] = true
			}
		}
		for _, a := range t.Args {
			walk(a)
		}
	}
	walk(t)
	symCache.Store(t.id, out)
	return out
}

// relevantFacts: cone of influence of the goal over shared symbols. Dropping assumptions can
// only make a proof fail, never succeed wrongly.
func relevantFacts(facts []*Term, seeds []*Term) []*Term {
	syms := map[string]bool{}
	for _, s := range seeds {
		for k := range symbolsOf(s) {
			syms[k] = true
		}
	}
	used := make([]bool, len(facts))
	fs := make([]map[string]bool, len(facts))
	for i, f := range facts {
		fs[i] = symbolsOf(f)
	}
	for changed := true; changed; {
		changed = false
		for i := range facts {
			if used[i] {
				continue
			}
			hit := len(fs[i]) == 0
			for k := range fs[i] {
				if syms[k] && !ubiquitous(k) {
					hit = true
					break
				}
			}
			if hit {
				used[i] = true
				changed = true
				for k := range fs[i] {
					syms[k] = true
				}
			}
		}
	}
	var out []*Term
	for i, f := range facts {
		if used[i] {
			out = append(out, f)
		}
	}
	return out
}

func ubiquitous(sym string) bool {
	return sym == "itag" || sym == "niliface"
}

func withAxioms(asserts []*Term) []*Term {
	have := map[int]bool{}
	for _, a := range asserts {
		have[a.id] = true
	}
	for changed := true; changed; {
		changed = false
		syms := map[string]bool{}
		for _, a := range asserts {
			for k := range symbolsOf(a) {
				syms[k] = true
			}
		}
		for s := range syms {
			for _, ax := range axiomsBySym[s] {
				if ax != True && !have[ax.id] {
					have[ax.id] = true
					asserts = append(asserts, ax)
					changed = true
				}
			}
		}
	}
	return asserts
}

var termMu sync.Mutex

func (o *Obligation) script(values bool) string {
	termMu.Lock()
	defer termMu.Unlock()
	var facts []*Term
	if o.exec != nil {
		facts = o.exec.facts[:o.NFacts]
	}
	neg := Not(o.Goal)
	seeds := []*Term{o.Guard, neg}
	rel := relevantFacts(facts, seeds)
	asserts := append(append([]*Term{}, rel...), o.ExtraAs...)
	asserts = append(asserts, o.Guard, neg)
	asserts = instantiateFacts(asserts, 400)
	asserts = withAxioms(asserts)
	var gv []*Term
	if values {
		for _, in := range o.Inputs {
			gv = append(gv, in.T)
		}
	}
	return smtHeader + Script(asserts, gv, nil)
}

var valueRe = regexp.MustCompile(`^\(\((.*)\)\)$`)

// solve discharges one obligation with the portfolio.
func (o *Obligation) solve(tier string, idx int) {
	if o.Result == "trivial" {
		o.Solver = "simplifier"
		return
	}
	quick, slow := 5, 20
	if tier == "thorough" {
		quick, slow = 10, 120
	}
	script := o.script(false)
	if len(script) > 4<<20 {
		o.Result = "error"
		o.RawOut = fmt.Sprintf("VC too large: %d bytes", len(script))
		return
	}
	file := filepath.Join(workDir, fmt.Sprintf("q%05d.smt2", idx))
	os.WriteFile(file, []byte(script), 0644)
	r := runSolver("z3-new", file, quick)
	total := r.Ms
	if r.Result != "unsat" && r.Result != "sat" {
		// race the remaining solvers
		ch := make(chan SolverRes, 3)
		names := []string{"cvc5", "z3", "z3-new"}
		for _, n := range names {
			go func(n string) { ch <- runSolver(n, file, slow) }(n)
		}
		best := r
		for range names {
			x := <-ch
			if x.Result == "unsat" || x.Result == "sat" {
				if best.Result != "unsat" && best.Result != "sat" {
					best = x
				}
			} else if best.Result == "error" && x.Result != "error" {
				best = x
			}
		}
		total += best.Ms
		r = best
	}
	o.Result, o.Solver, o.Ms, o.RawOut = r.Result, r.Solver, total, r.Out
	if o.Cover {
		// reachability check: sat expected
		if r.Result == "sat" {
			o.Result = "unsat-cover-ok"
		} else if r.Result == "unsat" {
			o.Result = "cover-unreachable"
		}
		return
	}
	if r.Result == "sat" && len(o.Inputs) > 0 {
		// second run asking for the values of the inputs
		s2 := o.script(true)
		f2 := filepath.Join(workDir, fmt.Sprintf("q%05d_m.smt2", idx))
		os.WriteFile(f2, []byte(s2), 0644)
		m := runSolver(r.Solver, f2, slow)
		if m.Result == "sat" {
			o.Model = parseValues(m.Out, o.Inputs)
			o.RawOut = m.Out
		}
	}
	if len(o.RawOut) > 20000 {
		o.RawOut = o.RawOut[:20000] + "\n...[truncated]"
	}
}

// parseValues reads a (get-value ...) answer: a list of (term value) pairs in input order.
func parseValues(out string, inputs []NamedTerm) map[string]string {
	i := strings.Index(out, "\n")
	if i < 0 {
		return nil
	}
	body := strings.TrimSpace(out[i+1:])
	// split top-level pairs
	if !strings.HasPrefix(body, "(") {
		return nil
	}
	body = body[1:]
	res := map[string]string{}
	depth := 0
	start := -1
	var pairs []string
	inStr := false
	for k := 0; k < len(body); k++ {
		c := body[k]
		if inStr {
			if c == '"' {
				inStr = false
			}
			continue
		}
		switch c {
		case '"':
			inStr = true
		case '(':
			if depth == 0 {
				start = k
			}
			depth++
		case ')':
			depth--
			if depth == 0 && start >= 0 {
				pairs = append(pairs, body[start:k+1])
				start = -1
			}
		}
	}
	for k, p := range pairs {
		if k >= len(inputs) {
			break
		}
		// value is the last s-expression of the pair
		inner := strings.TrimSpace(p[1 : len(p)-1])
		val := lastSexp(inner)
		res[inputs[k].Name] = val
	}
	return res
}

func lastSexp(s string) string {
	s = strings.TrimSpace(s)
	if s == "" {
		return s
	}
	if s[len(s)-1] == ')' {
		depth := 0
		for i := len(s) - 1; i >= 0; i-- {
			if s[i] == ')' {
				depth++
			} else if s[i] == '(' {
				depth--
				if depth == 0 {
					return s[i:]
				}
			}
		}
	}
	if s[len(s)-1] == '"' {
		// string literal: scan back to the opening quote ("" is an escaped quote)
		i := len(s) - 2
		for i >= 0 {
			if s[i] == '"' {
				if i > 0 && s[i-1] == '"' {
					i -= 2
					continue
				}
				return s[i:]
			}
			i--
		}
	}
	if i := strings.LastIndexAny(s, " \t\n"); i >= 0 {
		return s[i+1:]
	}
	return s
}
