package main

import (
	"bytes"
	"context"
	"fmt"
	"os"
	"os/exec"
	"path/filepath"
	"regexp"
	"strings"
	"time"
)

type SolverRes struct {
	Result string // unsat sat unknown timeout error
	Solver string
	Ms     int64
	Out    string
}

var workDir string

const smtHeader = "(set-option :produce-models true)\n(set-logic ALL)\n"

func solverCmd(name, file string, timeoutS int) *exec.Cmd {
	switch name {
	case "z3-new":
		return exec.Command("z3-new", "-smt2", fmt.Sprintf("-T:%d", timeoutS), file)
	case "z3":
		return exec.Command("z3", "-smt2", fmt.Sprintf("-T:%d", timeoutS), file)
	case "cvc5":
		return exec.Command("cvc5", "--lang=smt2", fmt.Sprintf("--tlimit=%d", timeoutS*1000), "--strings-exp", file)
	}
	return nil
}

func runSolver(name, file string, timeoutS int) SolverRes {
	return runSolverCtx(context.Background(), name, file, timeoutS)
}

func runSolverCtx(parent context.Context, name, file string, timeoutS int) SolverRes {
	start := time.Now()
	ctx, cancel := context.WithTimeout(parent, time.Duration(timeoutS+5)*time.Second)
	defer cancel()
	c := solverCmd(name, file, timeoutS)
	cmd := exec.CommandContext(ctx, c.Path, c.Args[1:]...)
	var out bytes.Buffer
	cmd.Stdout = &out
	cmd.Stderr = &out
	cmd.Run()
	ms := time.Since(start).Milliseconds()
	txt := out.String()
	first := strings.TrimSpace(strings.SplitN(txt, "\n", 2)[0])
	res := "error"
	switch {
	case first == "unsat":
		res = "unsat"
	case first == "sat":
		res = "sat"
	case first == "unknown":
		res = "unknown"
	case strings.Contains(first, "timeout") || ctx.Err() != nil || strings.Contains(txt, "interrupted by timeout"):
		res = "timeout"
	}
	return SolverRes{Result: res, Solver: name, Ms: ms, Out: txt}
}

// symbolsOf returns the declared symbols (constants and uninterpreted functions) in t.
var symCache = map[int]map[string]bool{}

func symbolsOf(t *Term) map[string]bool {
	if v, ok := symCache[t.id]; ok {
		return v
	}
	out := map[string]bool{}
	seen := map[int]bool{}
	var walk func(t *Term)
	walk = func(t *Term) {
		if seen[t.id] {
			return
		}
		seen[t.id] = true
		if t.Op == "var" {
			out[t.Name] = true
		} else if t.Op == "app" {
			if _, ok := TC.decls[t.Name]; ok {
				out[t.Name] = true
			}
		}
		for _, a := range t.Args {
			walk(a)
		}
	}
	walk(t)
	symCache[t.id] = out
	return out
}

// relevantFacts: cone of influence of the goal over shared symbols. Dropping assumptions can
// only make a proof fail, never succeed wrongly.
func relevantFacts(facts []*Term, seeds []*Term) []*Term {
	syms := map[string]bool{}
	for _, s := range seeds {
		for k := range symbolsOf(s) {
			syms[k] = true
		}
	}
	used := make([]bool, len(facts))
	fs := make([]map[string]bool, len(facts))
	for i, f := range facts {
		fs[i] = symbolsOf(f)
	}
	for changed := true; changed; {
		changed = false
		for i := range facts {
			if used[i] {
				continue
			}
			hit := len(fs[i]) == 0
			for k := range fs[i] {
				if syms[k] && !ubiquitous(k) {
					hit = true
					break
				}
			}
			if hit {
				used[i] = true
				changed = true
				for k := range fs[i] {
					syms[k] = true
				}
			}
		}
	}
	var out []*Term
	for i, f := range facts {
		if used[i] {
			out = append(out, f)
		}
	}
	return out
}

func ubiquitous(sym string) bool {
	return sym == "itag" || sym == "niliface"
}

func withAxioms(asserts []*Term) []*Term {
	have := map[int]bool{}
	for _, a := range asserts {
		have[a.id] = true
	}
	for changed := true; changed; {
		changed = false
		syms := map[string]bool{}
		for _, a := range asserts {
			for k := range symbolsOf(a) {
				syms[k] = true
			}
		}
		for s := range syms {
			for _, ax := range axiomsBySym[s] {
				if ax != True && !have[ax.id] {
					have[ax.id] = true
					asserts = append(asserts, ax)
					changed = true
				}
			}
		}
	}
	return asserts
}

func (o *Obligation) baseAsserts() []*Term {
	var facts []*Term
	if o.exec != nil {
		all := o.exec.facts[:o.NFacts]
		if o.Block >= 0 && o.exec.fn != nil {
			// only facts established on the way to this block can matter
			for i, f := range all {
				fb := -1
				if i < len(o.exec.factBlock) {
					fb = o.exec.factBlock[i]
				}
				if fb < 0 || o.exec.canReach(fb, o.Block) {
					facts = append(facts, f)
				}
			}
		} else {
			facts = all
		}
	}
	neg := Not(o.Goal)
	seeds := []*Term{o.Guard, neg}
	rel := relevantFacts(facts, seeds)
	asserts := append(append([]*Term{}, rel...), o.ExtraAs...)
	asserts = append(asserts, o.Guard, neg)
	return asserts
}

// groundOnly drops the universally quantified assumptions that remain after instantiation
// (weaker assumptions: an unsat answer is still a proof; any other answer is ignored).
func groundOnly(asserts []*Term) []*Term {
	var out []*Term
	for _, a := range asserts {
		var qs []*Term
		positiveForalls(a, &qs)
		if len(qs) > 0 {
			m := map[*Term]*Term{}
			for _, q := range qs {
				m[q] = True
			}
			a = Subst(a, m)
		}
		if a != True {
			out = append(out, a)
		}
	}
	return out
}

// print renders the full query and, when quantified assumptions remain, the ground-only one.
func (o *Obligation) print(asserts []*Term) (full, ground string) {
	var gv []*Term
	for _, in := range o.Inputs {
		gv = append(gv, in.T)
	}
	full = smtHeader + Script(withAxioms(asserts), gv, nil)
	if strings.Contains(full, "(forall ") {
		ground = smtHeader + Script(withAxioms(groundOnly(asserts)), nil, nil)
	}
	return
}

// Stage A: the query with its quantified assumptions instantiated at memory locations only
// (frame conditions, well-formedness of stored slices) and then dropped. Most safety
// obligations (nil, bounds, division) and many functional ones are decided here.
func (o *Obligation) prepareA() {
	base := o.baseAsserts()
	if os.Getenv("GOVC_DEBUG_OBL") != "" && strings.Contains(o.Name, os.Getenv("GOVC_DEBUG_OBL")) {
		fmt.Fprintf(os.Stderr, "OBL %s\n guard: %.900s\n goal: %.900s\n", o.Name, o.Guard, o.Goal)
	}
	o.ScriptA = smtHeader + Script(withAxioms(groundOnly(instantiateFactsMode(base, 300, 2))), nil, nil)
}

// Stage B: instances tied to the goal only, remaining quantified assumptions dropped.
func (o *Obligation) prepareB() {
	base := o.baseAsserts()
	as := instantiateFactsMode(base, 500, 1)
	o.ScriptB = smtHeader + Script(withAxioms(groundOnly(as)), nil, nil)
	if o.ScriptB == o.ScriptA {
		o.ScriptB = ""
	}
}

// solveStage runs one of the cheap stages; only an unsat answer counts (the assumptions were weakened).
func (o *Obligation) solveStage(stage string, tier string, idx int) bool {
	script, label, tmo := o.ScriptA, "heap instances", 3
	if stage == "B" {
		script, label, tmo = o.ScriptB, "goal-directed instances", 4
	}
	if tier == "thorough" {
		tmo *= 2
	}
	if script == "" {
		return false
	}
	file := filepath.Join(workDir, fmt.Sprintf("q%05d_%s.smt2", idx, stage))
	os.WriteFile(file, []byte(script), 0644)
	r := runSolver("z3-new", file, tmo)
	o.Ms += r.Ms
	if stage == "B" && r.Result == "timeout" {
		// undecided for lack of time, not for lack of instances: the same query gets a longer limit
		// before the full query is tried (a loaded machine must not turn a 2 s proof into an alarm)
		o.retryB = true
	}
	if r.Result == "unsat" {
		o.Result, o.Solver, o.RawOut = "unsat", "z3-new ("+label+")", ""
		if tier == "thorough" {
			o.crossCheck(file)
		}
		return true
	}
	return false
}

// crossCheck (thorough tier): a second, independent solver is asked the same stage-A/B query.
// Agreement is recorded; a `sat` answer against the first solver's `unsat` is a solver
// disagreement and turns the obligation into an undecided one (never silently accepted).
// unknown/timeout of the second solver is recorded and does not change the result.
func (o *Obligation) crossCheck(file string) {
	second := "cvc5"
	r := runSolver(second, file, 20)
	o.Ms += r.Ms
	switch r.Result {
	case "unsat":
		o.Solver += " + " + second + " agrees"
	case "sat":
		o.Result = "solver-disagreement"
		o.RawOut = "z3-new: unsat, " + second + ": sat on " + file
	default:
		o.Solver += " (" + second + ": " + r.Result + ")"
	}
}

// prepare builds the SMT scripts of the obligation: one query, or a case split over the
// function's branch conditions when the merged-state query is large.
func (o *Obligation) prepare(forceSplit int) {
	base := o.baseAsserts()
	if os.Getenv("GOVC_DEBUG_OBL") != "" && strings.Contains(o.Name, os.Getenv("GOVC_DEBUG_OBL")) {
		fmt.Fprintf(os.Stderr, "OBL %s\n guard: %.600s\n goal: %.600s\n", o.Name, o.Guard, o.Goal)
		for _, a := range o.exec.branchAtoms {
			fmt.Fprintf(os.Stderr, " atom: %.300s\n", a)
		}
	}
	// reachability probes look for a model: few instances (memory locations only) keep that search short
	inst := func(as []*Term) []*Term {
		if o.Cover {
			return instantiateFactsMode(as, 300, 2)
		}
		return instantiateFacts(as, 1500)
	}
	raw, _ := o.print(base)
	if (len(raw) <= 15000 && forceSplit == 0) || o.exec == nil {
		o.Script, o.ScriptG = o.print(inst(base))
		if o.Cover {
			_, o.ScriptU = o.print(instantiateFacts(base, 1500))
		}
		return
	}
	o.Script = raw
	maxAtoms := 4
	if forceSplit > 0 {
		maxAtoms = forceSplit
	}
	occurs := map[int]bool{}
	var walk func(t *Term)
	walk = func(t *Term) {
		if occurs[t.id] {
			return
		}
		occurs[t.id] = true
		for _, a := range t.Args {
			walk(a)
		}
	}
	for _, a := range base {
		walk(a)
	}
	var atoms []*Term
	dup := map[int]bool{}
	for _, c := range o.exec.branchAtoms {
		at := c
		if at.Op == "app" && at.Name == "not" {
			at = at.Args[0]
		}
		if occurs[at.id] && !dup[at.id] && !at.open {
			dup[at.id] = true
			atoms = append(atoms, at)
		}
	}
	if len(atoms) > maxAtoms {
		atoms = atoms[:maxAtoms]
	}
	if len(atoms) == 0 {
		return
	}
	n := len(atoms)
	for mask := 0; mask < 1<<n; mask++ {
		m := map[*Term]*Term{}
		var lits []*Term
		for i, at := range atoms {
			if mask&(1<<i) != 0 {
				m[at] = True
				lits = append(lits, at)
			} else {
				m[at] = False
				lits = append(lits, Not(at))
			}
		}
		var as []*Term
		dead := false
		seen := map[int]bool{}
		for _, a := range base {
			x := Subst(a, m)
			if x == False {
				dead = true
				break
			}
			if x != True && !seen[x.id] {
				seen[x.id] = true
				as = append(as, x)
			}
		}
		if dead {
			continue
		}
		as = append(as, lits...)
		if os.Getenv("GOVC_DEBUG_OBL") != "" && strings.Contains(o.Name, os.Getenv("GOVC_DEBUG_OBL")) {
			fmt.Fprintf(os.Stderr, "CASE %d\n", mask)
			for i, a := range base {
				fmt.Fprintf(os.Stderr, "  base[%d]: %.200s\n     -> %.200s\n", i, a, Subst(a, m))
			}
		}
		as0 := as
		as = inst(as)
		f, g := o.print(as)
		o.Scripts = append(o.Scripts, f)
		o.ScriptsG = append(o.ScriptsG, g)
		if o.Cover && len(o.Scripts) <= 3 {
			_, u := o.print(instantiateFacts(as0, 1500))
			o.ScriptsU = append(o.ScriptsU, u)
		}
	}
}

func (o *Obligation) script(values bool) string {
	f, _ := o.print(o.baseAsserts())
	return f
}

// smallVariant adds bounds on the Int-sorted inputs (recorded as ;IN comments) to a script.
func smallVariant(script string) string {
	k := strings.LastIndex(script, "(check-sat)")
	if k < 0 {
		return ""
	}
	var extra strings.Builder
	for _, l := range strings.Split(script[k:], "\n") {
		if !strings.HasPrefix(l, ";IN ") {
			continue
		}
		f := strings.SplitN(l, " ", 4)
		if len(f) < 4 || f[2] != "Int" {
			continue
		}
		fmt.Fprintf(&extra, "(assert (and (<= (- 3) %s) (<= %s 3)))\n", f[3], f[3])
	}
	if extra.Len() == 0 {
		return ""
	}
	return script[:k] + extra.String() + script[k:]
}

var valueRe = regexp.MustCompile(`^\(\((.*)\)\)$`)

// solve discharges one obligation with the portfolio.
func (o *Obligation) solve(tier string, idx int) {
	if o.Result == "trivial" {
		o.Solver = "simplifier"
		return
	}
	if o.retryB && o.ScriptB != "" && !o.Cover {
		o.retryB = false
		tmo := 16
		if tier == "thorough" {
			tmo = 32
		}
		file := filepath.Join(workDir, fmt.Sprintf("q%05d_B2.smt2", idx))
		os.WriteFile(file, []byte(o.ScriptB), 0644)
		r := runSolver("z3-new", file, tmo)
		o.Ms += r.Ms
		if r.Result == "unsat" {
			o.Result, o.Solver, o.RawOut = "unsat", "z3-new (goal-directed instances, second attempt)", ""
			o.Scripts, o.ScriptsG = nil, nil
			if tier == "thorough" {
				o.crossCheck(file)
			}
			return
		}
	}
	if len(o.Scripts) > 0 {
		scripts := o.Scripts
		scriptsG := o.ScriptsG
		scriptsU := o.ScriptsU
		o.Scripts = nil
		if o.Cover && len(scripts) > 3 {
			scripts = scripts[:3] // reachability probes: a few cases are enough
		}
		// the cases are independent: solve up to 4 at a time
		type caseRes struct {
			k int
			o *Obligation
		}
		results := make([]*Obligation, len(scripts))
		sem := make(chan struct{}, 4)
		done := make(chan caseRes, len(scripts))
		for k, sc := range scripts {
			sub := *o
			sub.Scripts, sub.ScriptsG, sub.ScriptsU = nil, nil, nil
			sub.ScriptU = ""
			if k < len(scriptsU) {
				sub.ScriptU = scriptsU[k]
			}
			sub.Script = sc
			sub.ScriptG = ""
			if k < len(scriptsG) {
				sub.ScriptG = scriptsG[k]
			}
			sub.Result = ""
			sub.Ms = 0
			go func(k int, sub *Obligation) {
				sem <- struct{}{}
				sub.solve(tier, idx*100+k)
				<-sem
				done <- caseRes{k, sub}
			}(k, &sub)
		}
		var total int64
		for range scripts {
			r := <-done
			results[r.k] = r.o
			total += r.o.Ms
		}
		// combine: first non-unsat case decides (cover: first reachable case)
		pick := results[len(results)-1]
		for _, r := range results {
			if o.Cover {
				if r.Result == "unsat-cover-ok" {
					pick = r
					break
				}
				continue
			}
			if r.Result != "unsat" {
				pick = r
				break
			}
		}
		o.Result, o.Solver, o.RawOut, o.Model = pick.Result, pick.Solver, pick.RawOut, pick.Model
		o.Ms += total
		o.Solver += fmt.Sprintf(" (%d cases)", len(scripts))
		return
	}
	quick, slow := 5, 20
	if tier == "thorough" {
		quick, slow = 10, 120
	}
	if o.Cover {
		slow = 4
	}
	if o.ScriptG != "" && !o.Cover {
		// ground-only pass first: decidable fragment, usually instantaneous
		file := filepath.Join(workDir, fmt.Sprintf("q%05d_g.smt2", idx))
		os.WriteFile(file, []byte(o.ScriptG), 0644)
		r := runSolver("z3-new", file, quick)
		if r.Result == "unsat" {
			o.Result, o.Solver, o.RawOut = "unsat", "z3-new (ground instances)", ""
			o.Ms += r.Ms
			return
		}
	}
	if o.ScriptG != "" && o.Cover {
		// reachability probe on the instantiated, quantifier-free query: `unsat` there is a proof that
		// the point is unreachable (the assumptions were only weakened); `sat` says it is reachable as
		// far as the instances go, which is what a vacuity guard needs. The thorough tier then still
		// asks for a model of the full query.
		file := filepath.Join(workDir, fmt.Sprintf("q%05d_g.smt2", idx))
		os.WriteFile(file, []byte(o.ScriptG), 0644)
		r := runSolver("z3-new", file, quick)
		o.Ms += r.Ms
		if r.Result == "unsat" {
			o.Result, o.Solver, o.RawOut = "cover-unreachable", "z3-new (ground instances)", ""
			return
		}
		if r.Result == "sat" && o.ScriptU != "" {
			// ... and no contradiction among all the instances the proofs of this function may use
			fileU := filepath.Join(workDir, fmt.Sprintf("q%05d_u.smt2", idx))
			os.WriteFile(fileU, []byte(o.ScriptU), 0644)
			ru := runSolver("z3-new", fileU, 3)
			o.Ms += ru.Ms
			if ru.Result == "unsat" {
				o.Result, o.Solver, o.RawOut = "cover-unreachable", "z3-new (ground instances)", ""
				return
			}
		}
		if r.Result == "sat" && tier != "thorough" {
			o.Result, o.Solver, o.RawOut = "unsat-cover-ok", "z3-new (reachable modulo instantiation)", ""
			return
		}
		if r.Result == "sat" {
			defer func() {
				if o.Result != "unsat-cover-ok" && o.Result != "cover-unreachable" {
					o.Result, o.Solver = "unsat-cover-ok", "z3-new (reachable modulo instantiation; full query: "+o.Result+")"
				}
			}()
		}
	}
	script := o.Script
	if len(script) > 4<<20 {
		o.Result = "error"
		o.RawOut = fmt.Sprintf("VC too large: %d bytes", len(script))
		return
	}
	file := filepath.Join(workDir, fmt.Sprintf("q%05d.smt2", idx))
	os.WriteFile(file, []byte(script), 0644)
	_ = quick
	// race the three back ends; the first definite answer wins
	names := []string{"z3-new", "cvc5", "z3"}
	ch := make(chan SolverRes, len(names))
	ctx, cancel := context.WithCancel(context.Background())
	for k, n := range names {
		go func(k int, n string) {
			// staggered start: most obligations are decided by the first solver within a second
			select {
			case <-time.After(time.Duration(k) * 1500 * time.Millisecond):
			case <-ctx.Done():
				ch <- SolverRes{Result: "error", Solver: n}
				return
			}
			ch <- runSolverCtx(ctx, n, file, slow)
		}(k, n)
	}
	var r SolverRes
	r.Result = "error"
	var total int64
	for range names {
		x := <-ch
		if x.Result == "unsat" || x.Result == "sat" {
			r = x
			total = x.Ms
			break
		}
		if r.Result == "error" || (r.Result == "timeout" && x.Result == "unknown") {
			r = x
		}
		if x.Ms > total {
			total = x.Ms
		}
	}
	cancel()
	o.Result, o.Solver, o.RawOut = r.Result, r.Solver, r.Out
	o.Ms += total
	if o.Cover {
		// reachability check: sat expected
		if r.Result == "sat" {
			o.Result = "unsat-cover-ok"
		} else if r.Result == "unsat" {
			o.Result = "cover-unreachable"
		}
		return
	}
	if r.Result == "sat" && len(o.Inputs) > 0 {
		o.Model = parseValues(r.Out, o.Inputs)
		// prefer a small counterexample: same query with the integer inputs bounded
		if small := smallVariant(script); small != "" {
			f2 := filepath.Join(workDir, fmt.Sprintf("q%05d_small.smt2", idx))
			os.WriteFile(f2, []byte(small), 0644)
			m := runSolver(r.Solver, f2, 10)
			if m.Result == "sat" {
				if mv := parseValues(m.Out, o.Inputs); len(mv) > 0 {
					o.Model = mv
					r.Out = m.Out
					o.RawOut = m.Out
				}
			}
		}
	}
	if len(o.RawOut) > 20000 {
		o.RawOut = o.RawOut[:20000] + "\n...[truncated]"
	}
}

// parseValues reads a (get-value ...) answer: a list of (term value) pairs in input order.
func parseValues(out string, inputs []NamedTerm) map[string]string {
	i := strings.Index(out, "\n")
	if i < 0 {
		return nil
	}
	body := strings.TrimSpace(out[i+1:])
	// split top-level pairs
	if !strings.HasPrefix(body, "(") {
		return nil
	}
	body = body[1:]
	res := map[string]string{}
	depth := 0
	start := -1
	var pairs []string
	inStr := false
	for k := 0; k < len(body); k++ {
		c := body[k]
		if inStr {
			if c == '"' {
				inStr = false
			}
			continue
		}
		switch c {
		case '"':
			inStr = true
		case '(':
			if depth == 0 {
				start = k
			}
			depth++
		case ')':
			depth--
			if depth == 0 && start >= 0 {
				pairs = append(pairs, body[start:k+1])
				start = -1
			}
		}
	}
	for k, p := range pairs {
		if k >= len(inputs) {
			break
		}
		// value is the last s-expression of the pair
		inner := strings.TrimSpace(p[1 : len(p)-1])
		val := lastSexp(inner)
		res[inputs[k].Name] = val
	}
	return res
}

func lastSexp(s string) string {
	s = strings.TrimSpace(s)
	if s == "" {
		return s
	}
	if s[len(s)-1] == ')' {
		depth := 0
		for i := len(s) - 1; i >= 0; i-- {
			if s[i] == ')' {
				depth++
			} else if s[i] == '(' {
				depth--
				if depth == 0 {
					return s[i:]
				}
			}
		}
	}
	if s[len(s)-1] == '"' {
		// string literal: scan back to the opening quote ("" is an escaped quote)
		i := len(s) - 2
		for i >= 0 {
			if s[i] == '"' {
				if i > 0 && s[i-1] == '"' {
					i -= 2
					continue
				}
				return s[i:]
			}
			i--
		}
	}
	if i := strings.LastIndexAny(s, " \t\n"); i >= 0 {
		return s[i+1:]
	}
	return s
}
