package main

import (
	"fmt"
	"os"
)

// Goal skolemisation and a small E-matching step modulo linear offsets.
//
// Quantified facts produced by contracts typically talk about slice elements,
//     forall k :: P(k) ==> M[ mkloc(r, pidx(p, off + k)) ] == ...
// and SMT solvers match the arithmetic inside the pattern unreliably. Before a query is
// printed, every ground index term E that occurs in some pidx(p, E) is used to instantiate
// such facts with k := E - off. Instances of assumed facts are sound; the quantified facts
// stay in the query as well.

// skolemize strips universally quantified variables from positive positions of a goal.
func skolemize(goal *Term) *Term {
	switch {
	case goal.Op == "forall":
		m := map[*Term]*Term{}
		for _, b := range goal.Binds {
			m[b] = Fresh("sk_"+b.Name, b.Sort)
		}
		return skolemize(Subst(goal.Args[0], m))
	case goal.Op == "app" && goal.Name == "=>":
		return Imp(goal.Args[0], skolemize(goal.Args[1]))
	case goal.Op == "app" && goal.Name == "and":
		var as []*Term
		for _, a := range goal.Args {
			as = append(as, skolemize(a))
		}
		return And(as...)
	}
	return goal
}

type groundIdx struct {
	byPath map[int][]*Term
	seen   map[[2]int]bool
	all    []*Term
	seenE  map[int]bool
	selIdx map[string][]*Term // array sort -> ground index terms used in selects
	seenS  map[string]bool
	ufArg  map[string][]*Term // "f|pos" -> ground arguments of uninterpreted function f
}

func collectGround(ts []*Term, g *groundIdx) {
	visited := map[int]bool{}
	var walk func(t *Term)
	walk = func(t *Term) {
		if visited[t.id] {
			return
		}
		visited[t.id] = true
		if t.Op == "app" && (t.Name == "select" || t.Name == "store") && !t.Args[1].open && t.Args[1].Sort != "Int" {
			k := t.Args[0].Sort + "|" + fmt.Sprint(t.Args[1].id)
			if !g.seenS[k] {
				g.seenS[k] = true
				g.selIdx[t.Args[0].Sort] = append(g.selIdx[t.Args[0].Sort], t.Args[1])
			}
		}
		if t.Op == "app" && !t.open && len(t.Args) > 0 {
			if _, isUF := TC.decls[t.Name]; isUF {
				for p, a := range t.Args {
					k := fmt.Sprintf("%s|%d", t.Name, p)
					sk := k + "|" + fmt.Sprint(a.id)
					if !g.seenS[sk] {
						g.seenS[sk] = true
						g.ufArg[k] = append(g.ufArg[k], a)
					}
				}
			}
		}
		if t.Op == "app" && t.Name == "pidx" && !t.open {
			k := [2]int{t.Args[0].id, t.Args[1].id}
			if !g.seen[k] {
				g.seen[k] = true
				g.byPath[t.Args[0].id] = append(g.byPath[t.Args[0].id], t.Args[1])
			}
			if !g.seenE[t.Args[1].id] {
				g.seenE[t.Args[1].id] = true
				g.all = append(g.all, t.Args[1])
			}
		}
		for _, a := range t.Args {
			walk(a)
		}
	}
	for _, t := range ts {
		walk(t)
	}
}

// positiveForalls finds forall nodes in positive positions of t, each with the guard under
// which it is asserted (t implies guard => forall).
type guardedQ struct {
	q     *Term
	guard *Term
}

func positiveForalls(t *Term, out *[]*Term) {
	var gs []guardedQ
	positiveForallsG(t, True, &gs)
	for _, g := range gs {
		*out = append(*out, g.q)
	}
}

func positiveForallsG(t *Term, guard *Term, out *[]guardedQ) {
	switch {
	case t.Op == "forall":
		if !t.open {
			*out = append(*out, guardedQ{t, guard})
		}
	case t.Op == "app" && t.Name == "=>":
		positiveForallsG(t.Args[1], And(guard, t.Args[0]), out)
	case t.Op == "app" && t.Name == "and":
		for _, a := range t.Args {
			positiveForallsG(a, guard, out)
		}
	case t.Op == "app" && t.Name == "or":
		for i, a := range t.Args {
			if a.Op == "forall" || (a.Op == "app" && (a.Name == "and" || a.Name == "=>" || a.Name == "or")) {
				var others []*Term
				for k, b := range t.Args {
					if k != i {
						others = append(others, Not(b))
					}
				}
				positiveForallsG(a, And(append([]*Term{guard}, others...)...), out)
			}
		}
	case t.Op == "app" && t.Name == "ite" && t.Sort == "Bool":
		positiveForallsG(t.Args[1], And(guard, t.Args[0]), out)
		positiveForallsG(t.Args[2], And(guard, Not(t.Args[0])), out)
	}
}

func mentions(t *Term, v *Term) bool {
	if t == v {
		return true
	}
	if !t.open {
		return false
	}
	for _, a := range t.Args {
		if mentions(a, v) {
			return true
		}
	}
	return false
}

// solveFor: T == E for bound variable k, with T of the form k, (+ X k), (+ k X), (- k X).
func solveFor(T, k, E *Term) *Term {
	if T == k {
		return E
	}
	if T.Op == "app" && len(T.Args) == 2 {
		a, b := T.Args[0], T.Args[1]
		switch T.Name {
		case "+":
			if b == k && !a.open {
				return Sub(E, a)
			}
			if a == k && !b.open {
				return Sub(E, b)
			}
			if mentions(a, k) && !b.open {
				return solveFor(a, k, Sub(E, b))
			}
			if mentions(b, k) && !a.open {
				return solveFor(b, k, Sub(E, a))
			}
		case "-":
			if a == k && !b.open {
				return Add(E, b)
			}
			if mentions(a, k) && !b.open {
				return solveFor(a, k, Add(E, b))
			}
		}
	}
	return nil
}

type idxPattern struct {
	path *Term
	T    *Term
}

func findPatterns(body *Term, k *Term, out *[]idxPattern) {
	seen := map[int]bool{}
	var walk func(t *Term)
	walk = func(t *Term) {
		if !t.open || seen[t.id] {
			return
		}
		seen[t.id] = true
		if t.Op == "app" && t.Name == "pidx" && mentions(t.Args[1], k) {
			*out = append(*out, idxPattern{t.Args[0], t.Args[1]})
		}
		for _, a := range t.Args {
			walk(a)
		}
	}
	walk(body)
}

func instantiateFacts(asserts []*Term, limit int) []*Term {
	have := map[int]bool{}
	for _, a := range asserts {
		have[a.id] = true
	}
	g := &groundIdx{byPath: map[int][]*Term{}, seen: map[[2]int]bool{}, seenE: map[int]bool{}, selIdx: map[string][]*Term{}, seenS: map[string]bool{}, ufArg: map[string][]*Term{}}
	added := 0
	// quantified facts found so far (instances may contain further quantifiers)
	var qs []guardedQ
	pending := asserts
	tried := map[[3]int]bool{} // (quantifier, binder, instance term)
	unfoldDepth := map[int]int{}
	for round := 0; round < 5 && len(pending) > 0; round++ {
		collectGround(pending, g)
		// bounded unfolding of recursive specification functions
		var unf []*Term
		if len(recDefs) > 0 {
			seenU := map[int]bool{}
			var walkU func(t *Term, depth int)
			walkU = func(t *Term, depth int) {
				if seenU[t.id] {
					return
				}
				seenU[t.id] = true
				if t.Op == "app" && !t.open {
					if rd, ok := recDefs[t.Name]; ok && len(rd.params) == len(t.Args) {
						d, known := unfoldDepth[t.id]
						if !known {
							d = depth
							unfoldDepth[t.id] = d
						}
						if d < 2 && !tried[[3]int{t.id, -1, -1}] {
							tried[[3]int{t.id, -1, -1}] = true
							m := map[*Term]*Term{}
							for i, pb := range rd.params {
								m[pb] = t.Args[i]
							}
							inst := Subst(rd.body, m)
							// applications introduced by this unfolding are one level deeper
							var mark func(x *Term)
							seenM := map[int]bool{}
							mark = func(x *Term) {
								if seenM[x.id] {
									return
								}
								seenM[x.id] = true
								if x.Op == "app" {
									if _, ok := recDefs[x.Name]; ok {
										if _, k := unfoldDepth[x.id]; !k {
											unfoldDepth[x.id] = d + 1
										}
									}
								}
								for _, a := range x.Args {
									mark(a)
								}
							}
							mark(inst)
							unf = append(unf, Eq(t, inst))
						}
					}
				}
				for _, a := range t.Args {
					walkU(a, depth)
				}
			}
			for _, a := range pending {
				walkU(a, 0)
			}
		}
		for _, a := range pending {
			positiveForallsG(a, True, &qs)
		}
		var news []*Term
		emit := func(gq guardedQ, k, inst *Term) bool {
			key := [3]int{gq.q.id, k.id, inst.id}
			if tried[key] {
				return true
			}
			tried[key] = true
			var rest []*Term
			for _, b := range gq.q.Binds {
				if b != k {
					rest = append(rest, b)
				}
			}
			full := Imp(gq.guard, Forall(rest, Subst(gq.q.Args[0], map[*Term]*Term{k: inst})))
			if !have[full.id] && full != True {
				have[full.id] = true
				news = append(news, full)
				added++
			}
			return added < limit
		}
	outer:
		for _, gq := range qs {
			q := gq.q
			for _, k := range q.Binds {
				if k.Sort != "Int" {
					sorts := selectSortsOf(q, k)
					for so := range sorts {
						for _, E := range g.selIdx[so] {
							if !emit(gq, k, E) {
								break outer
							}
						}
					}
					continue
				}
				for _, key := range ufArgPositions(q, k) {
					if k.Sort == "Int" && !emit(gq, k, IntLit(0)) {
						break outer
					}
					for _, E := range g.ufArg[key] {
						if E.Sort == k.Sort && !emit(gq, k, E) {
							break outer
						}
					}
				}
				pats := patternsOf(q, k)
				for _, p := range pats {
					if p.path.open {
						continue
					}
					cands := g.byPath[p.path.id]

					for _, E := range cands {
						inst := solveFor(p.T, k, E)
						if inst == nil || inst.open {
							continue
						}
						if !emit(gq, k, inst) {
							break outer
						}
					}
				}
			}
		}
		for _, u := range unf {
			if !have[u.id] {
				have[u.id] = true
				news = append(news, u)
			}
		}
		asserts = append(asserts, news...)
		pending = news
		if added >= limit {
			break
		}
	}
	if os.Getenv("GOVC_DEBUG_INST") != "" {
		if os.Getenv("GOVC_DEBUG_INST") == "2" {
			for _, t := range g.all {
				fmt.Fprintf(os.Stderr, "   idx %s\n", t)
			}
		}
		fmt.Fprintf(os.Stderr, "inst: %d quantified facts, %d instances (limit %d), ground idx %d, selIdx %d\n", len(qs), added, limit, len(g.all), len(g.selIdx))
	}
	return asserts
}

var ufPosCache = map[[2]int][]string{}

// ufArgPositions: the (function, position) pairs where binder k occurs directly as an argument
// of an uninterpreted function in q's body.
func ufArgPositions(q, k *Term) []string {
	key := [2]int{q.id, k.id}
	if p, ok := ufPosCache[key]; ok {
		return p
	}
	var out []string
	have := map[string]bool{}
	seenT := map[int]bool{}
	var walk func(t *Term)
	walk = func(t *Term) {
		if !t.open || seenT[t.id] {
			return
		}
		seenT[t.id] = true
		if t.Op == "app" {
			if _, isUF := TC.decls[t.Name]; isUF {
				for p, a := range t.Args {
					if a == k {
						s := fmt.Sprintf("%s|%d", t.Name, p)
						if !have[s] {
							have[s] = true
							out = append(out, s)
						}
					}
				}
			}
		}
		for _, a := range t.Args {
			walk(a)
		}
	}
	walk(q.Args[0])
	ufPosCache[key] = out
	return out
}

var patCache = map[[2]int][]idxPattern{}
var selSortCache = map[[2]int]map[string]bool{}

func patternsOf(q, k *Term) []idxPattern {
	key := [2]int{q.id, k.id}
	if p, ok := patCache[key]; ok {
		return p
	}
	var pats []idxPattern
	findPatterns(q.Args[0], k, &pats)
	patCache[key] = pats
	return pats
}

func selectSortsOf(q, k *Term) map[string]bool {
	key := [2]int{q.id, k.id}
	if p, ok := selSortCache[key]; ok {
		return p
	}
	sorts := map[string]bool{}
	seenT := map[int]bool{}
	var walk func(t *Term)
	walk = func(t *Term) {
		if !t.open || seenT[t.id] {
			return
		}
		seenT[t.id] = true
		if t.Op == "app" && t.Name == "select" && t.Args[1] == k {
			sorts[t.Args[0].Sort] = true
		}
		for _, a := range t.Args {
			walk(a)
		}
	}
	walk(q.Args[0])
	selSortCache[key] = sorts
	return sorts
}

// skolemizeExists replaces existential quantifiers in positive, non-nested positions of an
// assumed fact by fresh constants (sound: the fact asserts that such witnesses exist).
func skolemizeExists(f *Term) *Term {
	switch {
	case f.Op == "exists" && !f.open:
		m := map[*Term]*Term{}
		for _, b := range f.Binds {
			m[b] = Fresh("wit_"+b.Name, b.Sort)
		}
		return skolemizeExists(Subst(f.Args[0], m))
	case f.Op == "app" && f.Name == "=>":
		return Imp(f.Args[0], skolemizeExists(f.Args[1]))
	case f.Op == "app" && f.Name == "and":
		var as []*Term
		for _, a := range f.Args {
			as = append(as, skolemizeExists(a))
		}
		return And(as...)
	}
	return f
}
