package main

import (
	"fmt"
	"math/big"
	"os"
	"sort"
	"strings"
)

// Goal skolemisation and a small E-matching step modulo linear offsets.
//
// Quantified facts produced by contracts typically talk about slice elements,
//     forall k :: P(k) ==> M[ mkloc(r, pidx(p, off + k)) ] == ...
// and SMT solvers match the arithmetic inside the pattern unreliably. Before a query is
// printed, every ground index term E that occurs in some pidx(p, E) is used to instantiate
// such facts with k := E - off. Instances of assumed facts are sound; the quantified facts
// stay in the query as well.

// skolemize strips universally quantified variables from positive positions of a goal.
func skolemize(goal *Term) *Term {
	switch {
	case goal.Op == "forall":
		m := map[*Term]*Term{}
		for _, b := range goal.Binds {
			m[b] = Fresh("sk_"+b.Name, b.Sort)
		}
		return skolemize(Subst(goal.Args[0], m))
	case goal.Op == "app" && goal.Name == "=>":
		return Imp(goal.Args[0], skolemize(goal.Args[1]))
	case goal.Op == "app" && goal.Name == "and":
		var as []*Term
		for _, a := range goal.Args {
			as = append(as, skolemize(a))
		}
		return And(as...)
	}
	return goal
}

type groundIdx struct {
	byPath map[int][]*Term
	seen   map[[2]int]bool
	all    []*Term
	seenE  map[int]bool
	selIdx map[string][]*Term // array sort -> ground index terms used in selects
	selAt  map[int][]*Term    // array term -> ground index terms it is read or written at
	seenS  map[string]bool
	ufArg  map[string][]*Term // "f|pos" -> ground arguments of uninterpreted function f
}

func collectGround(ts []*Term, g *groundIdx) {
	visited := map[int]bool{}
	var walk func(t *Term)
	walk = func(t *Term) {
		if visited[t.id] {
			return
		}
		visited[t.id] = true
		if t.Op == "app" && (t.Name == "select" || t.Name == "store") && !t.Args[1].open && t.Args[1].Sort != "Int" {
			k := t.Args[0].Sort + "|" + fmt.Sprint(t.Args[1].id)
			if !g.seenS[k] {
				g.seenS[k] = true
				g.selIdx[t.Args[0].Sort] = append(g.selIdx[t.Args[0].Sort], t.Args[1])
			}
		}
		if t.Op == "app" && (t.Name == "select" || t.Name == "store") && !t.Args[1].open {
			// the array itself and every array it was built from by stores is accessed at this index
			for a := t.Args[0]; a != nil; {
				if !a.open {
					ka := fmt.Sprintf("@%d|%d", a.id, t.Args[1].id)
					if !g.seenS[ka] {
						g.seenS[ka] = true
						g.selAt[a.id] = append(g.selAt[a.id], t.Args[1])
					}
				}
				if a.Op == "app" && a.Name == "store" {
					a = a.Args[0]
				} else {
					a = nil
				}
			}
		}
		if t.Op == "app" && !t.open && len(t.Args) > 0 {
			if _, isUF := TC.decls[t.Name]; isUF {
				for p, a := range t.Args {
					k := fmt.Sprintf("%s|%d", t.Name, p)
					sk := k + "|" + fmt.Sprint(a.id)
					if !g.seenS[sk] {
						g.seenS[sk] = true
						g.ufArg[k] = append(g.ufArg[k], a)
					}
				}
			}
		}
		if t.Op == "app" && t.Name == "pidx" && !t.open {
			k := [2]int{t.Args[0].id, t.Args[1].id}
			if !g.seen[k] {
				g.seen[k] = true
				g.byPath[t.Args[0].id] = append(g.byPath[t.Args[0].id], t.Args[1])
			}
			if !g.seenE[t.Args[1].id] {
				g.seenE[t.Args[1].id] = true
				g.all = append(g.all, t.Args[1])
			}
		}
		for _, a := range t.Args {
			walk(a)
		}
	}
	for _, t := range ts {
		walk(t)
	}
}

// positiveForalls finds forall nodes in positive positions of t, each with the guard under
// which it is asserted (t implies guard => forall).
type guardedQ struct {
	q     *Term
	guard *Term
}

func positiveForalls(t *Term, out *[]*Term) {
	var gs []guardedQ
	positiveForallsG(t, True, &gs)
	for _, g := range gs {
		*out = append(*out, g.q)
	}
}

func positiveForallsG(t *Term, guard *Term, out *[]guardedQ) {
	switch {
	case t.Op == "forall":
		if !t.open {
			*out = append(*out, guardedQ{t, guard})
		}
	case t.Op == "app" && t.Name == "=>":
		positiveForallsG(t.Args[1], And(guard, t.Args[0]), out)
	case t.Op == "app" && t.Name == "and":
		for _, a := range t.Args {
			positiveForallsG(a, guard, out)
		}
	case t.Op == "app" && t.Name == "or":
		for i, a := range t.Args {
			if a.Op == "forall" || (a.Op == "app" && (a.Name == "and" || a.Name == "=>" || a.Name == "or")) {
				var others []*Term
				for k, b := range t.Args {
					if k != i {
						others = append(others, Not(b))
					}
				}
				positiveForallsG(a, And(append([]*Term{guard}, others...)...), out)
			}
		}
	case t.Op == "app" && t.Name == "ite" && t.Sort == "Bool":
		positiveForallsG(t.Args[1], And(guard, t.Args[0]), out)
		positiveForallsG(t.Args[2], And(guard, Not(t.Args[0])), out)
	}
}

func mentions(t *Term, v *Term) bool {
	if t == v {
		return true
	}
	if !t.open {
		return false
	}
	for _, a := range t.Args {
		if mentions(a, v) {
			return true
		}
	}
	return false
}

// solveFor: T == E for bound variable k, with T of the form k, (+ X k), (+ k X), (- k X).
func solveFor(T, k, E *Term) *Term {
	if T == k {
		return E
	}
	if T.Op == "app" && len(T.Args) == 2 {
		a, b := T.Args[0], T.Args[1]
		switch T.Name {
		case "+":
			if b == k && !a.open {
				return Sub(E, a)
			}
			if a == k && !b.open {
				return Sub(E, b)
			}
			if mentions(a, k) && !b.open {
				return solveFor(a, k, Sub(E, b))
			}
			if mentions(b, k) && !a.open {
				return solveFor(b, k, Sub(E, a))
			}
		case "-":
			if a == k && !b.open {
				return Add(E, b)
			}
			if mentions(a, k) && !b.open {
				return solveFor(a, k, Add(E, b))
			}
		}
	}
	return nil
}

// matchIte: T == E where, after cancelling equal summands, T is an ite that mentions k and E is a
// closed ite of the same shape (a ring-buffer index `ite(h+k >= n, h+k-n, h+k)` against
// `ite(h+X >= n, h+X-n, h+X)`): solve branch against branch, which gives k := X directly instead
// of an expression around E's ite.
func matchIte(T, k, E *Term) []*Term {
	d := newLin()
	d.addTerm(T, big.NewInt(1))
	d.addTerm(E, big.NewInt(-1))
	if d.k.Sign() != 0 {
		return nil
	}
	var a, b *Term
	for _, id := range sortedAtomIDs(d.atom) {
		c := d.coef[id]
		if c == nil || c.Sign() == 0 {
			continue
		}
		at := d.atom[id]
		isIte := at.Op == "app" && at.Name == "ite" && len(at.Args) == 3
		switch {
		case isIte && at.open && mentions(at, k) && c.Cmp(big.NewInt(1)) == 0 && a == nil:
			a = at
		case isIte && !at.open && c.Cmp(big.NewInt(-1)) == 0 && b == nil:
			b = at
		default:
			return nil
		}
	}
	if a == nil || b == nil {
		return nil
	}
	var out []*Term
	seen := map[int]bool{}
	for i := 1; i <= 2; i++ {
		for _, r := range solveAll(a.Args[i], k, b.Args[i]) {
			if r != nil && !r.open && !seen[r.id] {
				seen[r.id] = true
				out = append(out, r)
			}
		}
	}
	return out
}

// solveAll: candidates for k from T == E, looking through ite branches and n-ary sums.
func solveAll(T, k, E *Term) []*Term {
	if T.Sort == "Int" && E.Sort == "Int" && T.Op == "app" {
		if r := matchIte(T, k, E); len(r) > 0 {
			return r
		}
	}
	if T.Op == "app" && T.Name == "ite" && len(T.Args) == 3 {
		return append(solveAll(T.Args[1], k, E), solveAll(T.Args[2], k, E)...)
	}
	if T.Op == "app" && (T.Name == "+" || T.Name == "-") && T.Sort == "Int" && len(T.Args) >= 2 {
		// linear: T = (sum of closed terms) + c*k  with c = +-1 ; solve via the normal form
		l := newLin()
		l.addTerm(T, big.NewInt(1))
		if c, ok := l.coef[k.id]; ok && (c.Cmp(big.NewInt(1)) == 0 || c.Cmp(big.NewInt(-1)) == 0) {
			open := false
			for _, id := range sortedAtomIDs(l.atom) {
				a := l.atom[id]
				if id != k.id && a.open {
					// an atom containing k non-linearly (e.g. an ite): try its branches
					if a.Op == "app" && a.Name == "ite" {
						var out []*Term
						for _, br := range a.Args[1:] {
							m := map[*Term]*Term{a: br}
							out = append(out, solveAll(Subst(T, m), k, E)...)
						}
						return out
					}
					open = true
				}
			}
			if !open {
				rest := newLin()
				rest.addTerm(E, big.NewInt(1))
				for id, a := range l.atom {
					if id != k.id {
						rest.addTerm(a, new(big.Int).Neg(l.coef[id]))
					}
				}
				rest.k.Sub(rest.k, l.k)
				r := rest.build()
				if c.Sign() < 0 {
					r = Neg(r)
				}
				return []*Term{r}
			}
		}
		// k only inside an ite atom
		for _, id := range sortedAtomIDs(l.atom) {
			a := l.atom[id]
			if a.open && a.Op == "app" && a.Name == "ite" && mentions(a, k) {
				var out []*Term
				for _, br := range a.Args[1:] {
					out = append(out, solveAll(Subst(T, map[*Term]*Term{a: br}), k, E)...)
				}
				return out
			}
		}
	}
	if r := solveFor(T, k, E); r != nil {
		return []*Term{r}
	}
	return nil
}

func sortedAtomIDs(m map[int]*Term) []int {
	ids := make([]int, 0, len(m))
	for id := range m {
		ids = append(ids, id)
	}
	sort.Ints(ids)
	return ids
}

type idxPattern struct {
	path *Term
	T    *Term
}

func findPatterns(body *Term, k *Term, out *[]idxPattern) {
	seen := map[int]bool{}
	var walk func(t *Term)
	walk = func(t *Term) {
		if !t.open || seen[t.id] {
			return
		}
		seen[t.id] = true
		if t.Op == "app" && t.Name == "pidx" && mentions(t.Args[1], k) {
			*out = append(*out, idxPattern{t.Args[0], t.Args[1]})
		}
		for _, a := range t.Args {
			walk(a)
		}
	}
	walk(body)
}

func instantiateFacts(asserts []*Term, limit int) []*Term {
	return instantiateFactsMode(asserts, limit, 0)
}

// instantiateFactsMode. mode 0: every candidate. mode 1: only candidates tied to the goal's skolem
// constants, the quantifiers' own boundaries, and memory locations for location-sorted binders
// (frame and well-formedness facts). mode 2: location-sorted binders only.
func instantiateFactsMode(asserts []*Term, limit int, mode int) []*Term {
	goalOnly := mode >= 1
	heapOnly := mode == 2
	have := map[int]bool{}
	for _, a := range asserts {
		have[a.id] = true
	}
	g := &groundIdx{byPath: map[int][]*Term{}, seen: map[[2]int]bool{}, seenE: map[int]bool{}, selIdx: map[string][]*Term{}, selAt: map[int][]*Term{}, seenS: map[string]bool{}, ufArg: map[string][]*Term{}}
	added := 0
	// quantified facts found so far (instances may contain further quantifiers)
	var qs []guardedQ
	pending := asserts
	tried := map[[3]int]bool{} // (quantifier, binder, instance term)
	unfoldDepth := map[int]int{}
	perQ := map[[2]int]int{}
	for round := 0; round < 5 && len(pending) > 0; round++ {
		collectGround(pending, g)
		// bounded unfolding of recursive specification functions
		var unf []*Term
		if len(recDefs) > 0 {
			seenU := map[int]bool{}
			var walkU func(t *Term, depth int)
			walkU = func(t *Term, depth int) {
				if seenU[t.id] {
					return
				}
				seenU[t.id] = true
				if t.Op == "app" && !t.open {
					if rd, ok := recDefs[t.Name]; ok && len(rd.params) == len(t.Args) {
						d, known := unfoldDepth[t.id]
						if !known {
							d = depth
							unfoldDepth[t.id] = d
						}
						if d < 2 && !tried[[3]int{t.id, -1, -1}] {
							tried[[3]int{t.id, -1, -1}] = true
							m := map[*Term]*Term{}
							for i, pb := range rd.params {
								m[pb] = t.Args[i]
							}
							inst := Subst(rd.body, m)
							// applications introduced by this unfolding are one level deeper
							var mark func(x *Term)
							seenM := map[int]bool{}
							mark = func(x *Term) {
								if seenM[x.id] {
									return
								}
								seenM[x.id] = true
								if x.Op == "app" {
									if _, ok := recDefs[x.Name]; ok {
										if _, k := unfoldDepth[x.id]; !k {
											unfoldDepth[x.id] = d + 1
										}
									}
								}
								for _, a := range x.Args {
									mark(a)
								}
							}
							mark(inst)
							unf = append(unf, Eq(t, inst))
						}
					}
				}
				for _, a := range t.Args {
					walkU(a, depth)
				}
			}
			for _, a := range pending {
				walkU(a, 0)
			}
		}
		for _, a := range pending {
			positiveForallsG(a, True, &qs)
		}
		var news []*Term
		emit := func(gq guardedQ, k, inst *Term) bool {
			key := [3]int{gq.q.id, k.id, inst.id}
			if tried[key] {
				return true
			}
			tried[key] = true
			// no single quantified fact may use up the budget
			pk := [2]int{gq.q.id, k.id}
			perQ[pk]++
			if perQ[pk] > 48 {
				return true
			}
			var rest []*Term
			for _, b := range gq.q.Binds {
				if b != k {
					rest = append(rest, b)
				}
			}
			full := Imp(gq.guard, Forall(rest, Subst(gq.q.Args[0], map[*Term]*Term{k: inst})))
			if len(rest) == 0 {
				// witnesses of existential conclusions become constants the next round can use
				full = skolemizeExists(full)
			}
			if !have[full.id] && full != True {
				have[full.id] = true
				news = append(news, full)
				added++
			}
			return added < limit
		}
		// skolem constants of the goal are candidates for binders of the same source name
		skolems := map[string][]*Term{}
		{
			seenK := map[int]bool{}
			var walkK func(t *Term)
			walkK = func(t *Term) {
				if seenK[t.id] {
					return
				}
				seenK[t.id] = true
				if t.Op == "var" && t.Sort == "Int" && (strings.HasPrefix(t.Name, "wit_") || strings.HasPrefix(t.Name, "|wit_")) {
					skolems["@wit"] = append(skolems["@wit"], t)
				}
				if t.Op == "var" && t.Sort != "Int" && (strings.HasPrefix(t.Name, "wit_") || strings.HasPrefix(t.Name, "|wit_")) {
					skolems["@wit|"+t.Sort] = append(skolems["@wit|"+t.Sort], t)
				}
				if t.Op == "var" && (strings.HasPrefix(t.Name, "sk_") || strings.HasPrefix(t.Name, "|sk_")) {
					base := strings.TrimPrefix(strings.TrimPrefix(t.Name, "|"), "sk_")
					if i := strings.Index(base, "!"); i > 0 {
						base = base[:i]
					}
					skolems[base+"|"+t.Sort] = append(skolems[base+"|"+t.Sort], t)
				}
				for _, a := range t.Args {
					walkK(a)
				}
			}
			for _, a := range asserts {
				walkK(a)
			}
		}
		mentionsSkolem := func(t *Term) bool {
			found := false
			seenM := map[int]bool{}
			var w func(x *Term)
			w = func(x *Term) {
				if found || seenM[x.id] {
					return
				}
				seenM[x.id] = true
				if x.Op == "var" {
					n := strings.TrimPrefix(x.Name, "|")
					if strings.HasPrefix(n, "sk_") || strings.HasPrefix(n, "wit_") {
						found = true
					}
				}
				for _, a := range x.Args {
					w(a)
				}
			}
			w(t)
			return found
		}
		// ranked candidates of one binder: 0 goal skolems, 1 boundaries and matches that mention a
		// skolem, 2 any other ground match
		type cand struct {
			t    *Term
			rank int
		}
		candidatesOf := func(gq guardedQ, k *Term) []cand {
			q := gq.q
			var out []cand
			seenC := map[int]bool{}
			add := func(t *Term, rank int) {
				if t == nil || t.open || t.Sort != k.Sort || seenC[t.id] {
					return
				}
				if tried[[3]int{q.id, k.id, t.id}] && len(q.Binds) == 1 {
					return
				}
				seenC[t.id] = true
				out = append(out, cand{t, rank})
			}
			kb := strings.TrimPrefix(k.Name, "|")
			if i := strings.Index(kb, "!"); i > 0 {
				kb = kb[:i]
			}
			sks := skolems[kb+"|"+k.Sort]
			if k.Sort == "Int" {
				// any integer skolem of the goal is a candidate (i/j/k are interchangeable names)
				var allSk []*Term
				seenSk := map[int]bool{}
				skKeys := make([]string, 0, len(skolems))
				for key := range skolems {
					skKeys = append(skKeys, key)
				}
				sort.Strings(skKeys)
				for _, key := range skKeys {
					l := skolems[key]
					if strings.HasSuffix(key, "|Int") && key != "@wit" {
						for _, t := range l {
							if !seenSk[t.id] {
								seenSk[t.id] = true
								allSk = append(allSk, t)
							}
						}
					}
				}
				if len(allSk) <= 6 {
					sks = allSk
				}
			}
			for _, sk := range sks {
				add(sk, 0)
				if k.Sort == "Int" {
					for _, w := range skolems["@wit"] {
						add(Add(sk, w), 0)
					}
				}
			}
			if k.Sort != "Int" {
				for _, w := range skolems["@wit|"+k.Sort] {
					add(w, 0)
				}
				ssorts := selectSortsOf(q, k)
				soKeys := make([]string, 0, len(ssorts))
				for so := range ssorts {
					soKeys = append(soKeys, so)
				}
				sort.Strings(soKeys)
				// first the locations at which the very arrays of this fact are read or written (the
				// per-fact cap must not be used up by locations of other arrays of the same sort)
				for _, a := range selectArraysOf(q, k) {
					for _, E := range g.selAt[a.id] {
						add(E, 1)
					}
				}
				for _, so := range soKeys {
					for _, E := range g.selIdx[so] {
						add(E, 1)
					}
				}
				return out
			}
			// indices at which the very arrays (maps keyed by integers, sequences) of this fact are accessed
			for _, a := range selectArraysOf(q, k) {
				for _, E := range g.selAt[a.id] {
					add(E, 1)
				}
			}
			for _, bnd := range boundsOf(q, k) {
				add(bnd, 1)
			}
			for _, key := range ufArgPositions(q, k) {
				add(IntLit(0), 2)
				for _, E := range g.ufArg[key] {
					r := 2
					if mentionsSkolem(E) {
						r = 1
					}
					add(E, r)
				}
			}
			for _, p := range patternsOf(q, k) {
				if p.path.open {
					continue
				}
				for _, E := range g.byPath[p.path.id] {
					r := 2
					if mentionsSkolem(E) {
						r = 1
					}
					for _, inst := range solveAll(p.T, k, E) {
						add(inst, r)
					}
				}
			}
			return out
		}
		emitTuple := func(gq guardedQ, binds []*Term, vals []*Term) bool {
			m := map[*Term]*Term{}
			inB := map[*Term]bool{}
			for i, b := range binds {
				m[b] = vals[i]
				inB[b] = true
			}
			var rest []*Term
			for _, b := range gq.q.Binds {
				if !inB[b] {
					rest = append(rest, b)
				}
			}
			full := Imp(gq.guard, Forall(rest, Subst(gq.q.Args[0], m)))
			if len(rest) == 0 {
				full = skolemizeExists(full)
			}
			if !have[full.id] && full != True {
				have[full.id] = true
				news = append(news, full)
				added++
			}
			return added < limit
		}
		// two passes: goal-directed tuples first, so that generic matches cannot starve them
	outer:
		for pass := 0; pass < 2; pass++ {
			if goalOnly && pass == 1 {
				break
			}
			for _, gq := range qs {
				q := gq.q
				if heapOnly {
					skip := false
					for _, b := range q.Binds {
						if b.Sort == "Int" {
							skip = true
						}
					}
					if skip {
						continue
					}
				}
				if len(q.Binds) == 1 {
					k := q.Binds[0]
					for _, c := range candidatesOf(gq, k) {
						if (pass == 0) != (c.rank <= 1) {
							continue
						}
						if !emit(gq, k, c.t) {
							break outer
						}
					}
					continue
				}
				// several binders: instantiate them together
				var binds []*Term
				var lists [][]cand
				for _, k := range q.Binds {
					cs := candidatesOf(gq, k)
					if len(cs) > 0 {
						binds = append(binds, k)
						lists = append(lists, cs)
					}
				}
				if len(binds) == 0 {
					continue
				}
				product := 1
				for _, l := range lists {
					product *= len(l)
					if product > 1<<20 {
						break
					}
				}
				maxGeneric := len(binds)
				if product > 96 {
					maxGeneric = 1 // at most one binder takes a match unrelated to the goal
				}
				partial := len(binds) < len(q.Binds)
				vals := make([]*Term, len(binds))
				count := 0
				var rec func(i, generic int) bool
				rec = func(i, generic int) bool {
					if i == len(binds) {
						if (pass == 0) != (generic == 0) {
							return true
						}
						key := [3]int{q.id, -2, 0}
						h := 17
						for _, v := range vals {
							h = h*1000003 + v.id
						}
						key[2] = h
						if tried[key] {
							return true
						}
						tried[key] = true
						count++
						if count > 160 {
							return true
						}
						return emitTuple(gq, binds, vals)
					}
					for _, c := range lists[i] {
						gnr := generic
						if c.rank >= 2 {
							gnr++
						}
						if gnr > maxGeneric || (partial && gnr > 0) {
							continue
						}
						vals[i] = c.t
						if !rec(i+1, gnr) {
							return false
						}
						if count > 160 {
							break
						}
					}
					return true
				}
				if !rec(0, 0) {
					break outer
				}
			}
		}
		for _, u := range unf {
			if !have[u.id] {
				have[u.id] = true
				news = append(news, u)
			}
		}
		asserts = append(asserts, news...)
		pending = news
		if added >= limit {
			break
		}
	}
	if os.Getenv("GOVC_DEBUG_INST") != "" {
		if os.Getenv("GOVC_DEBUG_INST") == "2" {
			for _, t := range g.all {
				fmt.Fprintf(os.Stderr, "   idx %s\n", t)
			}
		}
		if os.Getenv("GOVC_DEBUG_INST") == "3" {
			for _, gq := range qs {
				n := 0
				for _, b := range gq.q.Binds {
					n += perQ[[2]int{gq.q.id, b.id}]
				}
				fmt.Fprintf(os.Stderr, "   Q[%d inst] guard=%.80s :: %.260s\n", n, gq.guard, gq.q)
			}
		}
		fmt.Fprintf(os.Stderr, "inst: %d quantified facts, %d instances (limit %d), ground idx %d, selIdx %d\n", len(qs), added, limit, len(g.all), len(g.selIdx))
	}
	return asserts
}

var boundCache = map[[2]int][]*Term{}

// boundsOf: closed boundary values of an Int binder found in the guard of a quantified fact.
func boundsOf(q, k *Term) []*Term {
	key := [2]int{q.id, k.id}
	if b, ok := boundCache[key]; ok {
		return b
	}
	var out []*Term
	body := q.Args[0]
	var guard *Term
	if body.Op == "app" && body.Name == "=>" {
		guard = body.Args[0]
	}
	var walk func(t *Term)
	walk = func(t *Term) {
		if t.Op == "app" && t.Name == "and" {
			for _, a := range t.Args {
				walk(a)
			}
			return
		}
		if t.Op == "app" && len(t.Args) == 2 && (t.Name == "<" || t.Name == "<=") {
			a, b := t.Args[0], t.Args[1]
			switch {
			case a == k && !b.open && t.Name == "<":
				out = append(out, Sub(b, IntLit(1)))
			case a == k && !b.open && t.Name == "<=":
				out = append(out, b)
			case b == k && !a.open && t.Name == "<=":
				out = append(out, a)
			case b == k && !a.open && t.Name == "<":
				out = append(out, Add(a, IntLit(1)))
			}
		}
	}
	if guard != nil && k.Sort == "Int" {
		walk(guard)
	}
	if len(out) > 4 {
		out = out[:4]
	}
	boundCache[key] = out
	return out
}

var ufPosCache = map[[2]int][]string{}

// ufArgPositions: the (function, position) pairs where binder k occurs directly as an argument
// of an uninterpreted function in q's body.
func ufArgPositions(q, k *Term) []string {
	key := [2]int{q.id, k.id}
	if p, ok := ufPosCache[key]; ok {
		return p
	}
	var out []string
	have := map[string]bool{}
	seenT := map[int]bool{}
	var walk func(t *Term)
	walk = func(t *Term) {
		if !t.open || seenT[t.id] {
			return
		}
		seenT[t.id] = true
		if t.Op == "app" {
			if _, isUF := TC.decls[t.Name]; isUF {
				for p, a := range t.Args {
					if a == k {
						s := fmt.Sprintf("%s|%d", t.Name, p)
						if !have[s] {
							have[s] = true
							out = append(out, s)
						}
					}
				}
			}
		}
		for _, a := range t.Args {
			walk(a)
		}
	}
	walk(q.Args[0])
	ufPosCache[key] = out
	return out
}

var patCache = map[[2]int][]idxPattern{}
var selSortCache = map[[2]int]map[string]bool{}

func patternsOf(q, k *Term) []idxPattern {
	key := [2]int{q.id, k.id}
	if p, ok := patCache[key]; ok {
		return p
	}
	var pats []idxPattern
	findPatterns(q.Args[0], k, &pats)
	patCache[key] = pats
	return pats
}

var selArrCache = map[[2]int][]*Term{}

// selectArraysOf: the closed array terms A for which select(A, k) occurs in the body of q, in order of occurrence.
func selectArraysOf(q, k *Term) []*Term {
	key := [2]int{q.id, k.id}
	if p, ok := selArrCache[key]; ok {
		return p
	}
	var out []*Term
	seenA := map[int]bool{}
	seenT := map[int]bool{}
	var walk func(t *Term)
	walk = func(t *Term) {
		if !t.open || seenT[t.id] {
			return
		}
		seenT[t.id] = true
		if t.Op == "app" && t.Name == "select" && t.Args[1] == k && !t.Args[0].open && !seenA[t.Args[0].id] {
			seenA[t.Args[0].id] = true
			out = append(out, t.Args[0])
		}
		for _, a := range t.Args {
			walk(a)
		}
	}
	walk(q.Args[0])
	selArrCache[key] = out
	return out
}

func selectSortsOf(q, k *Term) map[string]bool {
	key := [2]int{q.id, k.id}
	if p, ok := selSortCache[key]; ok {
		return p
	}
	sorts := map[string]bool{}
	seenT := map[int]bool{}
	var walk func(t *Term)
	walk = func(t *Term) {
		if !t.open || seenT[t.id] {
			return
		}
		seenT[t.id] = true
		if t.Op == "app" && t.Name == "select" && t.Args[1] == k {
			sorts[t.Args[0].Sort] = true
		}
		for _, a := range t.Args {
			walk(a)
		}
	}
	walk(q.Args[0])
	selSortCache[key] = sorts
	return sorts
}

// skolemizeExists replaces existential quantifiers in positive, non-nested positions of an
// assumed fact by fresh constants (sound: the fact asserts that such witnesses exist).
func skolemizeExists(f *Term) *Term {
	switch {
	case f.Op == "exists" && !f.open:
		m := map[*Term]*Term{}
		for _, b := range f.Binds {
			m[b] = Fresh("wit_"+b.Name, b.Sort)
		}
		return skolemizeExists(Subst(f.Args[0], m))
	case f.Op == "app" && f.Name == "=>":
		return Imp(f.Args[0], skolemizeExists(f.Args[1]))
	case f.Op == "app" && f.Name == "and":
		var as []*Term
		for _, a := range f.Args {
			as = append(as, skolemizeExists(a))
		}
		return And(as...)
	}
	return f
}
