package main

// Goal skolemisation and a small E-matching step modulo linear offsets.
//
// Quantified facts produced by contracts typically talk about slice elements,
//     forall k :: P(k) ==> M[ mkloc(r, pidx(p, off + k)) ] == ...
// and SMT solvers match the arithmetic inside the pattern unreliably. Before a query is
// printed, every ground index term E that occurs in some pidx(p, E) is used to instantiate
// such facts with k := E - off. Instances of assumed facts are sound; the quantified facts
// stay in the query as well.

// skolemize strips universally quantified variables from positive positions of a goal.
func skolemize(goal *Term) *Term {
	switch {
	case goal.Op == "forall":
		m := map[*Term]*Term{}
		for _, b := range goal.Binds {
			m[b] = Fresh("sk_"+b.Name, b.Sort)
		}
		return skolemize(Subst(goal.Args[0], m))
	case goal.Op == "app" && goal.Name == "=>":
		return Imp(goal.Args[0], skolemize(goal.Args[1]))
	case goal.Op == "app" && goal.Name == "and":
		var as []*Term
		for _, a := range goal.Args {
			as = append(as, skolemize(a))
		}
		return And(as...)
	}
	return goal
}

type groundIdx struct {
	byPath map[int][]*Term
	seen   map[[2]int]bool
}

func collectGround(ts []*Term, g *groundIdx) {
	visited := map[int]bool{}
	var walk func(t *Term)
	walk = func(t *Term) {
		if visited[t.id] {
			return
		}
		visited[t.id] = true
		if t.Op == "app" && t.Name == "pidx" && !t.open {
			k := [2]int{t.Args[0].id, t.Args[1].id}
			if !g.seen[k] {
				g.seen[k] = true
				g.byPath[t.Args[0].id] = append(g.byPath[t.Args[0].id], t.Args[1])
			}
		}
		for _, a := range t.Args {
			walk(a)
		}
	}
	for _, t := range ts {
		walk(t)
	}
}

// positiveForalls finds forall nodes in positive positions of t.
func positiveForalls(t *Term, out *[]*Term) {
	switch {
	case t.Op == "forall":
		if !t.open {
			*out = append(*out, t)
		}
	case t.Op == "app" && t.Name == "=>":
		positiveForalls(t.Args[1], out)
	case t.Op == "app" && (t.Name == "and" || t.Name == "or"):
		for _, a := range t.Args {
			positiveForalls(a, out)
		}
	case t.Op == "app" && t.Name == "ite" && t.Sort == "Bool":
		positiveForalls(t.Args[1], out)
		positiveForalls(t.Args[2], out)
	}
}

func mentions(t *Term, v *Term) bool {
	if t == v {
		return true
	}
	if !t.open {
		return false
	}
	for _, a := range t.Args {
		if mentions(a, v) {
			return true
		}
	}
	return false
}

// solveFor: T == E for bound variable k, with T of the form k, (+ X k), (+ k X), (- k X).
func solveFor(T, k, E *Term) *Term {
	if T == k {
		return E
	}
	if T.Op == "app" && len(T.Args) == 2 {
		a, b := T.Args[0], T.Args[1]
		switch T.Name {
		case "+":
			if b == k && !a.open {
				return Sub(E, a)
			}
			if a == k && !b.open {
				return Sub(E, b)
			}
			if mentions(a, k) && !b.open {
				return solveFor(a, k, Sub(E, b))
			}
			if mentions(b, k) && !a.open {
				return solveFor(b, k, Sub(E, a))
			}
		case "-":
			if a == k && !b.open {
				return Add(E, b)
			}
			if mentions(a, k) && !b.open {
				return solveFor(a, k, Add(E, b))
			}
		}
	}
	return nil
}

type idxPattern struct {
	path *Term
	T    *Term
}

func findPatterns(body *Term, k *Term, out *[]idxPattern) {
	seen := map[int]bool{}
	var walk func(t *Term)
	walk = func(t *Term) {
		if !t.open || seen[t.id] {
			return
		}
		seen[t.id] = true
		if t.Op == "app" && t.Name == "pidx" && mentions(t.Args[1], k) {
			*out = append(*out, idxPattern{t.Args[0], t.Args[1]})
		}
		for _, a := range t.Args {
			walk(a)
		}
	}
	walk(body)
}

func instantiateFacts(asserts []*Term, limit int) []*Term {
	have := map[int]bool{}
	for _, a := range asserts {
		have[a.id] = true
	}
	g := &groundIdx{byPath: map[int][]*Term{}, seen: map[[2]int]bool{}}
	added := 0
	for round := 0; round < 2; round++ {
		collectGround(asserts, g)
		var news []*Term
		for _, a := range asserts {
			var qs []*Term
			positiveForalls(a, &qs)
			for _, q := range qs {
				for _, k := range q.Binds {
					if k.Sort != "Int" {
						continue
					}
					var pats []idxPattern
					findPatterns(q.Args[0], k, &pats)
					done := map[int]bool{}
					for _, p := range pats {
						if p.path.open {
							continue
						}
						for _, E := range g.byPath[p.path.id] {
							inst := solveFor(p.T, k, E)
							if inst == nil || inst.open || done[inst.id] {
								continue
							}
							done[inst.id] = true
							var rest []*Term
							for _, b := range q.Binds {
								if b != k {
									rest = append(rest, b)
								}
							}
							body := Subst(q.Args[0], map[*Term]*Term{k: inst})
							ni := Forall(rest, body)
							full := Subst(a, map[*Term]*Term{q: ni})
							if !have[full.id] && full != True {
								have[full.id] = true
								news = append(news, full)
								added++
								if added >= limit {
									return append(asserts, news...)
								}
							}
						}
					}
				}
			}
		}
		if len(news) == 0 {
			break
		}
		asserts = append(asserts, news...)
	}
	return asserts
}
