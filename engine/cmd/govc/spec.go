package main

// Translation of contract expressions into SMT terms, against a symbolic state.

import (
	"fmt"
	"go/ast"
	"go/constant"
	"go/parser"
	"go/token"
	"go/types"
	"math/big"
	"sort"
	"strings"

	"golang.org/x/tools/go/ssa"
)

type specVar struct {
	v *Term
	t types.Type
}

type SpecEnv struct {
	e          *FnExec
	cur        *State
	old        *State
	before     *State
	prev       *State // state at the start of the current loop iteration (transition clauses)
	vars       map[string]specVar
	pkg        *types.Package
	scopePos   token.Pos // when valid: locals of e.fn visible at this position resolve to their cells
	results    []specVar
	depth      int
	clause     *Clause
	curLoop    *loopInfo
	block      *ssa.BasicBlock // the block of the guarded call (guardcall conditions): _k resolves against it
	cellSt     *State
	mapViews   map[int][2]*Term // rec-spec map parameters: placeholder id -> (domain, values) arrays
	atCallSite bool
	outer      *State // the current state while inside old()/before(): now(e) escapes back to it
	pureIdx    int    // which result of a multi-result pure function is meant (-1: single)
}

type specErr struct{ msg string }

func (env *SpecEnv) fail(f string, a ...interface{}) {
	panic(specErr{fmt.Sprintf(f, a...)})
}

func (env *SpecEnv) with(name string, v *Term, t types.Type) *SpecEnv {
	n := *env
	n.vars = make(map[string]specVar, len(env.vars)+1)
	for k, x := range env.vars {
		n.vars[k] = x
	}
	n.vars[name] = specVar{v, t}
	return &n
}

// inState switches the heap to another state (old/before); locals keep their current values.
func (env *SpecEnv) inState(st *State) *SpecEnv {
	n := *env
	n.cellSt = env.cells()
	if n.outer == nil {
		n.outer = env.cur
	}
	n.cur = st
	return &n
}

func (env *SpecEnv) cells() *State {
	if env.cellSt != nil {
		return env.cellSt
	}
	return env.cur
}

func (env *SpecEnv) boolExpr(c *Clause) (t *Term, err error) {
	defer func() {
		if r := recover(); r != nil {
			if se, ok := r.(specErr); ok {
				err = fmt.Errorf("%s:%d: %s (in %q)", c.File, c.Line, se.msg, c.Text)
				return
			}
			panic(r)
		}
	}()
	x, perr := c.Expr()
	if perr != nil {
		return nil, perr
	}
	env.clause = c
	v, _ := env.tr(x)
	if v.Sort != "Bool" {
		return nil, fmt.Errorf("%s:%d: clause is not boolean: %q", c.File, c.Line, c.Text)
	}
	return v, nil
}

func (env *SpecEnv) termExpr(c *Clause) (t *Term, ty types.Type, err error) {
	defer func() {
		if r := recover(); r != nil {
			if se, ok := r.(specErr); ok {
				err = fmt.Errorf("%s:%d: %s (in %q)", c.File, c.Line, se.msg, c.Text)
				return
			}
			panic(r)
		}
	}()
	x, perr := c.Expr()
	if perr != nil {
		return nil, nil, perr
	}
	env.clause = c
	v, vt := env.tr(x)
	return v, vt, nil
}

// ---- type text resolution ----

func (env *SpecEnv) resolveType(text string) types.Type {
	x, err := parser.ParseExpr(text)
	if err != nil {
		env.fail("bad type %q: %v", text, err)
	}
	return env.typeOfExpr(x)
}

func findImport(pkg *types.Package, name string, seen map[*types.Package]bool) *types.Package {
	if pkg == nil {
		return nil
	}
	for _, im := range pkg.Imports() {
		if im.Name() == name {
			return im
		}
	}
	return nil
}

func (env *SpecEnv) lookupPkg(name string) *types.Package {
	if env.pkg != nil && env.pkg.Name() == name {
		return env.pkg
	}
	if p := findImport(env.pkg, name, nil); p != nil {
		return p
	}
	// any loaded package with that name (prelude contracts mention foreign packages)
	if env.e != nil {
		for _, p := range env.e.P.allTypesPkgs() {
			if p.Name() == name {
				return p
			}
		}
	}
	return nil
}

func (env *SpecEnv) typeOfExpr(x ast.Expr) types.Type {
	switch t := x.(type) {
	case *ast.Ident:
		if o := types.Universe.Lookup(t.Name); o != nil {
			if tn, ok := o.(*types.TypeName); ok {
				return tn.Type()
			}
		}
		if env.pkg != nil {
			if o := env.pkg.Scope().Lookup(t.Name); o != nil {
				if tn, ok := o.(*types.TypeName); ok {
					return tn.Type()
				}
			}
		}
		if env.e != nil && env.e.fn != nil {
			// type parameters of the function under verification
			if tps := env.e.fn.TypeParams(); tps != nil {
				for i := 0; i < tps.Len(); i++ {
					if tps.At(i).Obj().Name() == t.Name {
						return tps.At(i)
					}
				}
			}
		}
		env.fail("unknown type %s", t.Name)
	case *ast.SelectorExpr:
		if id, ok := t.X.(*ast.Ident); ok {
			if p := env.lookupPkg(id.Name); p != nil {
				if o := p.Scope().Lookup(t.Sel.Name); o != nil {
					if tn, ok := o.(*types.TypeName); ok {
						return tn.Type()
					}
				}
			}
		}
		env.fail("unknown type %s", types.ExprString(x))
	case *ast.IndexExpr:
		base := env.typeOfExpr(t.X)
		arg := env.typeOfExpr(t.Index)
		inst, err := types.Instantiate(nil, base, []types.Type{arg}, false)
		if err != nil {
			env.fail("cannot instantiate %s: %v", types.ExprString(x), err)
		}
		return inst
	case *ast.StarExpr:
		return types.NewPointer(env.typeOfExpr(t.X))
	case *ast.ArrayType:
		if t.Len == nil {
			return types.NewSlice(env.typeOfExpr(t.Elt))
		}
		if bl, ok := t.Len.(*ast.BasicLit); ok {
			var n int64
			fmt.Sscan(bl.Value, &n)
			return types.NewArray(env.typeOfExpr(t.Elt), n)
		}
	case *ast.MapType:
		return types.NewMap(env.typeOfExpr(t.Key), env.typeOfExpr(t.Value))
	case *ast.InterfaceType:
		return types.NewInterfaceType(nil, nil)
	case *ast.FuncType:
		var ps, rs []*types.Var
		if t.Params != nil {
			for _, f := range t.Params.List {
				ft := env.typeOfExpr(f.Type)
				n := len(f.Names)
				if n == 0 {
					n = 1
				}
				for i := 0; i < n; i++ {
					nm := ""
					if i < len(f.Names) {
						nm = f.Names[i].Name
					}
					ps = append(ps, types.NewVar(0, nil, nm, ft))
				}
			}
		}
		if t.Results != nil {
			for _, f := range t.Results.List {
				rs = append(rs, types.NewVar(0, nil, "", env.typeOfExpr(f.Type)))
			}
		}
		return types.NewSignatureType(nil, nil, nil, types.NewTuple(ps...), types.NewTuple(rs...), false)
	}
	env.fail("unsupported type expression %s", types.ExprString(x))
	return nil
}

// ---- identifiers ----

func (env *SpecEnv) tryType(x *SExpr) types.Type {
	switch x.Kind {
	case "id":
		if _, ok := env.vars[x.Name]; ok {
			return nil
		}
		if o := types.Universe.Lookup(x.Name); o != nil {
			if tn, ok := o.(*types.TypeName); ok {
				return tn.Type()
			}
			return nil
		}
		if env.pkg != nil {
			if o := env.pkg.Scope().Lookup(x.Name); o != nil {
				if tn, ok := o.(*types.TypeName); ok {
					return tn.Type()
				}
			}
		}
	case "sel":
		if b := x.Args[0]; b.Kind == "id" {
			if _, shadow := env.vars[b.Name]; !shadow {
				if p := env.lookupPkg(b.Name); p != nil {
					if o := p.Scope().Lookup(x.Name); o != nil {
						if tn, ok := o.(*types.TypeName); ok {
							return tn.Type()
						}
					}
				}
			}
		}
	}
	return nil
}

func constTerm(c constant.Value, t types.Type) (*Term, types.Type) {
	switch c.Kind() {
	case constant.Bool:
		return BoolLit(constant.BoolVal(c)), t
	case constant.String:
		return StrLit(constant.StringVal(c)), t
	case constant.Int:
		if t != nil && sortOf(t) == "F64" {
			return f64Const(c.ExactString()), t
		}
		return BigLit(bigOfConst(c)), t
	case constant.Float:
		if t != nil && sortOf(t) == "Int" {
			if i := constant.ToInt(c); i.Kind() == constant.Int {
				return BigLit(bigOfConst(i)), t
			}
		}
		return f64Const(c.ExactString()), t
	}
	return nil, nil
}

func (env *SpecEnv) pkgObject(p *types.Package, name string) (*Term, types.Type, bool) {
	o := p.Scope().Lookup(name)
	if o == nil {
		return nil, nil, false
	}
	switch ob := o.(type) {
	case *types.Const:
		t, ty := constTerm(ob.Val(), ob.Type())
		if b, ok := ty.(*types.Basic); ok && b.Info()&types.IsUntyped != 0 {
			ty = nil
		}
		return t, ty, t != nil
	case *types.Var:
		// package-level variable: read through its global
		if env.e != nil {
			if sp := env.e.P.prog.Package(p); sp != nil {
				if g, ok := sp.Members[name].(*ssa.Global); ok {
					loc := env.e.val(env.cur, g).T
					return env.e.load(env.cur, loc, ob.Type()), ob.Type(), true
				}
			}
		}
	}
	return nil, nil, false
}

func (env *SpecEnv) ident(name string) (*Term, types.Type) {
	if v, ok := env.vars[name]; ok {
		return v.v, v.t
	}
	switch name {
	case "true":
		return True, types.Typ[types.Bool]
	case "false":
		return False, types.Typ[types.Bool]
	case "nil":
		return nil, types.Typ[types.UntypedNil]
	case "result":
		if len(env.results) == 0 {
			env.fail("result used but function has no results (or clause is not an ensures)")
		}
		return env.results[0].v, env.results[0].t
	case "_k":
		// the key of the current iteration of the innermost enclosing range-over-map loop
		// (available in guardcall conditions; the loop may discard the key with `_`)
		if env.block != nil && env.e != nil {
			var best *loopInfo
			for _, li := range env.e.loops {
				if li.blocks[env.block] && (best == nil || len(li.blocks) < len(best.blocks)) {
					best = li
				}
			}
			if best != nil {
				for _, ins := range best.header.Instrs {
					nx, ok := ins.(*ssa.Next)
					if !ok {
						continue
					}
					rng, ok := nx.Iter.(*ssa.Range)
					if !ok {
						continue
					}
					mt, ok := rng.X.Type().Underlying().(*types.Map)
					if !ok {
						continue
					}
					// the key as the iteration produced it: result 1 of next()
					for b := range best.blocks {
						for _, in2 := range b.Instrs {
							if ex, ok := in2.(*ssa.Extract); ok && ex.Tuple == ssa.Value(nx) && ex.Index == 1 {
								if v, ok := env.e.vals[ex]; ok && v.T != nil {
									return v.T, mt.Key()
								}
							}
						}
					}
					if v, ok := env.e.vals[nx]; ok && len(v.Tuple) == 3 && v.Tuple[1].T != nil {
						return v.Tuple[1].T, mt.Key()
					}
				}
			}
		}
		env.fail("_k used outside a range-over-map loop body (guardcall conditions only)")
	case "_i":
		// number of completed iterations of the enclosing range-over-slice loop
		if env.curLoop != nil && env.e != nil {
			for _, ins := range env.curLoop.header.Instrs {
				if s, ok := ins.(*ssa.Store); ok {
					if a, ok := s.Addr.(*ssa.Alloc); ok && a.Comment == "rangeindex" {
						if id, ok := env.e.cellOf[a]; ok {
							return Add(env.cells().cells[id], IntLit(1)), types.Typ[types.Int]
						}
					}
				}
			}
		}
		env.fail("_i used outside a range-over-slice loop invariant")
	}
	if strings.HasPrefix(name, "result") {
		var k int
		if _, err := fmt.Sscanf(name, "result%d", &k); err == nil && k < len(env.results) {
			return env.results[k].v, env.results[k].t
		}
	}
	// locals of the function under verification
	if env.scopePos.IsValid() && env.e != nil && env.e.fn.Pkg != nil {
		if sc := env.e.fn.Pkg.Pkg.Scope().Innermost(env.scopePos); sc != nil {
			if _, obj := sc.LookupParent(name, env.scopePos); obj != nil {
				if v, ok := obj.(*types.Var); ok && !v.IsField() && v.Parent() != env.e.fn.Pkg.Pkg.Scope() {
					if addrs := env.e.addrsOfVar(v); len(addrs) > 0 {
						var pick ssa.Value
						for _, a := range addrs {
							if _, ok := env.e.cellOf[a]; ok {
								pick = a
								break
							}
						}
						if pick == nil {
							for _, a := range addrs {
								if _, ok := env.e.vals[a]; ok {
									pick = a
								}
							}
						}
						if pick != nil {
							pv := env.e.val(env.cells(), pick)
							if pv.LP != nil {
								return env.e.readLP(env.cells(), pv.LP), v.Type()
							}
							return env.e.load(env.cur, pv.T, v.Type()), v.Type()
						}
					}
					if pv, ok := env.e.params[name]; ok {
						return pv.T, v.Type()
					}
					// captured variable of a closure
					for _, fv := range env.e.fn.FreeVars {
						if fv.Name() == name {
							if pt, ok := fv.Type().(*types.Pointer); ok {
								return env.e.load(env.cur, env.e.val(env.cur, fv).T, pt.Elem()), pt.Elem()
							}
						}
					}
				}
			}
		}
	}
	if env.e != nil {
		if pv, ok := env.e.params[name]; ok && env.scopePos.IsValid() {
			return pv.T, env.e.paramTy[name]
		}
		if env.e.fn != nil {
			for _, fv := range env.e.fn.FreeVars {
				if fv.Name() == name {
					if pt, ok := fv.Type().(*types.Pointer); ok {
						return env.e.load(env.cur, env.e.val(env.cur, fv).T, pt.Elem()), pt.Elem()
					}
				}
			}
		}
		if g, ok := env.e.ghost[name]; ok {
			return g, nil
		}
	}
	if env.pkg != nil {
		if t, ty, ok := env.pkgObject(env.pkg, name); ok {
			return t, ty
		}
	}
	if env.scopePos.IsValid() && env.e != nil && env.e.fn.Pkg != nil {
		sc := env.e.fn.Pkg.Pkg.Scope().Innermost(env.scopePos)
		dbg := fmt.Sprintf("scope=%v", sc != nil)
		if sc != nil {
			_, obj := sc.LookupParent(name, env.scopePos)
			dbg += fmt.Sprintf(" obj=%v addrs=%d", obj, len(env.e.varAddr[obj]))
		}
		env.fail("unknown identifier %q (%s)", name, dbg)
	}
	env.fail("unknown identifier %q", name)
	return nil, nil
}

// ---- field selection ----

func (env *SpecEnv) selectField(v *Term, t types.Type, name string) (*Term, types.Type) {
	obj, index, _ := types.LookupFieldOrMethod(t, true, env.pkg, name)
	if obj == nil && env.e != nil {
		// unexported field of a type from another package: retry with the defining package
		if n := namedOf(t); n != nil && n.Obj().Pkg() != nil {
			obj, index, _ = types.LookupFieldOrMethod(t, true, n.Obj().Pkg(), name)
		}
	}
	fld, ok := obj.(*types.Var)
	if !ok {
		env.fail("no field %s in %s", name, typeKey(t))
	}
	cur, ct := v, t
	for _, ix := range index {
		if p, ok := types.Unalias(ct).Underlying().(*types.Pointer); ok {
			si := structOf(p.Elem())
			if si == nil {
				env.fail("field %s through pointer to non-struct %s", name, typeKey(ct))
			}
			ft := si.typ.Field(ix).Type()
			cur = env.e.load(env.cur, FldLoc(cur, si.fids[ix]), ft)
			ct = ft
			continue
		}
		si := structOf(ct)
		if si == nil {
			env.fail("field %s of non-struct %s", name, typeKey(ct))
		}
		cur = si.Get(cur, ix)
		ct = si.typ.Field(ix).Type()
	}
	_ = fld
	return cur, ct
}

func namedOf(t types.Type) *types.Named {
	t = types.Unalias(t)
	if p, ok := t.(*types.Pointer); ok {
		t = types.Unalias(p.Elem())
	}
	n, _ := t.(*types.Named)
	return n
}

// addrOf computes the location denoted by an lvalue expression.
func (env *SpecEnv) addrOf(x *SExpr) (*Term, types.Type) {
	switch x.Kind {
	case "id":
		// a variable captured by the closure under contract lives in memory: its address is the
		// free variable itself
		if env.e != nil && env.e.fn != nil {
			if _, shadow := env.vars[x.Name]; !shadow {
				for _, fv := range env.e.fn.FreeVars {
					if fv.Name() == x.Name {
						if pt, ok := fv.Type().(*types.Pointer); ok {
							return env.e.val(env.cur, fv).T, pt.Elem()
						}
					}
				}
			}
		}
	case "sel":
		bv, bt := env.tr(x.Args[0])
		obj, index, _ := types.LookupFieldOrMethod(bt, true, env.pkg, x.Name)
		if obj == nil {
			if n := namedOf(bt); n != nil && n.Obj().Pkg() != nil {
				obj, index, _ = types.LookupFieldOrMethod(bt, true, n.Obj().Pkg(), x.Name)
			}
		}
		if _, ok := obj.(*types.Var); !ok {
			env.fail("no field %s in %s", x.Name, typeKey(bt))
		}
		cur, ct := bv, bt
		var loc *Term
		for k, ix := range index {
			p, ok := types.Unalias(ct).Underlying().(*types.Pointer)
			if ok {
				si := structOf(p.Elem())
				loc = FldLoc(cur, si.fids[ix])
				ct = si.typ.Field(ix).Type()
			} else if loc != nil {
				si := structOf(ct)
				loc = FldLoc(loc, si.fids[ix])
				ct = si.typ.Field(ix).Type()
			} else {
				env.fail("cannot take the address of field %s of a struct value", x.Name)
			}
			if k < len(index)-1 {
				if _, isPtr := types.Unalias(ct).Underlying().(*types.Pointer); isPtr {
					cur = env.e.load(env.cur, loc, ct)
					loc = nil
				}
			}
		}
		return loc, ct
	case "idx":
		bv, bt := env.tr(x.Args[0])
		iv, _ := env.tr(x.Args[1])
		if s, ok := types.Unalias(bt).Underlying().(*types.Slice); ok {
			return IdxLoc(SArr(bv), Add(SOff(bv), iv)), s.Elem()
		}
		env.fail("address of index into %s", typeKey(bt))
	case "un":
		if x.Op == "*" {
			pv, pt := env.tr(x.Args[0])
			if p, ok := types.Unalias(pt).Underlying().(*types.Pointer); ok {
				return pv, p.Elem()
			}
		}
	}
	if x.Kind == "id" && env.scopePos.IsValid() && env.e != nil && env.e.fn.Pkg != nil {
		if sc := env.e.fn.Pkg.Pkg.Scope().Innermost(env.scopePos); sc != nil {
			if _, obj := sc.LookupParent(x.Name, env.scopePos); obj != nil {
				if v, ok := obj.(*types.Var); ok {
					for _, a := range env.e.addrsOfVar(v) {
						if _, isCell := env.e.cellOf[a]; !isCell {
							if pv, ok := env.e.vals[a]; ok && pv.T != nil {
								return pv.T, v.Type()
							}
						}
					}
				}
			}
		}
	}
	env.fail("not an addressable expression: %s", x)
	return nil, nil
}

// ---- expressions ----

func isUntypedOrNil(t types.Type) bool { return t == nil }

func (env *SpecEnv) coerce(a *Term, at types.Type, b *Term, bt types.Type) (*Term, *Term, types.Type) {
	// untyped nil
	if at != nil && at == types.Typ[types.UntypedNil] && bt != nil {
		return zeroOf(bt), b, bt
	}
	if bt != nil && bt == types.Typ[types.UntypedNil] && at != nil {
		return a, zeroOf(at), at
	}
	t := at
	if t == nil {
		t = bt
	}
	// untyped int constant against float
	if a != nil && b != nil && a.Sort != b.Sort {
		if a.Sort == "Int" && b.Sort == "F64" {
			if c, ok := a.IsInt(); ok {
				a = f64Const(c.String())
			}
		} else if b.Sort == "Int" && a.Sort == "F64" {
			if c, ok := b.IsInt(); ok {
				b = f64Const(c.String())
			}
		}
	}
	return a, b, t
}

func (env *SpecEnv) tr(x *SExpr) (*Term, types.Type) {
	switch x.Kind {
	case "int":
		b, ok := new(big.Int).SetString(x.Name, 0)
		if !ok {
			env.fail("bad integer %q", x.Name)
		}
		return BigLit(b), nil
	case "float":
		c := constant.MakeFromLiteral(x.Name, token.FLOAT, 0)
		return f64Const(c.ExactString()), nil
	case "str":
		return StrLit(x.Name), nil
	case "char":
		return IntLit(int64(x.Name[0])), nil
	case "id":
		return env.ident(x.Name)
	case "un":
		switch x.Op {
		case "!":
			v, _ := env.tr(x.Args[0])
			return Not(v), types.Typ[types.Bool]
		case "-":
			v, t := env.tr(x.Args[0])
			if v.Sort == "F64" {
				return UF("fneg", "F64", v), t
			}
			return Neg(v), t
		case "*":
			loc, t := env.addrOf(x)
			return env.e.load(env.cur, loc, t), t
		case "&":
			loc, t := env.addrOf(x.Args[0])
			return loc, types.NewPointer(t)
		}
	case "bin":
		return env.binary(x)
	case "sel":
		// package-qualified name?
		if b := x.Args[0]; b.Kind == "id" {
			if _, shadow := env.vars[b.Name]; !shadow && !env.isLocalName(b.Name) {
				if p := env.lookupPkg(b.Name); p != nil {
					if t, ty, ok := env.pkgObject(p, x.Name); ok {
						return t, ty
					}
				}
			}
		}
		bv, bt := env.tr(x.Args[0])
		return env.selectField(bv, bt, x.Name)
	case "idx":
		bv, bt := env.tr(x.Args[0])
		iv, _ := env.tr(x.Args[1])
		switch t := types.Unalias(bt).Underlying().(type) {
		case *types.Slice:
			return env.e.load(env.cur, IdxLoc(SArr(bv), Add(SOff(bv), iv)), t.Elem()), t.Elem()
		case *types.Map:
			if v, ok := env.mapViews[bv.id]; ok {
				return Select(v[1], iv), t.Elem()
			}
			// Go semantics: the zero value for an absent key (and for a nil map)
			d, ds, vc, vs := mapClasses(t)
			hasK := And(Neq(bv, NilLoc), Select(Select(env.e.getMem(env.cur, d, ds), bv), iv))
			return Ite(hasK, Select(Select(env.e.getMem(env.cur, vc, vs), bv), iv), zeroOf(t.Elem())), t.Elem()
		case *types.Array:
			return Select(bv, iv), t.Elem()
		case *types.Basic:
			return strAt(bv, iv), types.Typ[types.Uint8]
		case *types.Pointer:
			if a, ok := t.Elem().Underlying().(*types.Array); ok {
				return env.e.load(env.cur, IdxLoc(bv, iv), a.Elem()), a.Elem()
			}
		}
		if bt == nil && bv.Sort == StrSort {
			return strAt(bv, iv), types.Typ[types.Uint8]
		}
		env.fail("cannot index %s", typeKey(bt))
	case "slice":
		bv, bt := env.tr(x.Args[0])
		if bv.Sort == StrSort {
			lo, hi := IntLit(0), strLen(bv)
			if x.Args[1] != nil {
				lo, _ = env.tr(x.Args[1])
			}
			if x.Args[2] != nil {
				hi, _ = env.tr(x.Args[2])
			}
			return strSub(bv, lo, hi), bt
		}
		if bv.Sort == "Slice" {
			lo, hi := IntLit(0), SLen(bv)
			if x.Args[1] != nil {
				lo, _ = env.tr(x.Args[1])
			}
			if x.Args[2] != nil {
				hi, _ = env.tr(x.Args[2])
			}
			return MkSlice(SArr(bv), Add(SOff(bv), lo), Sub(hi, lo), Sub(SCap(bv), lo)), bt
		}
		env.fail("cannot slice %s", typeKey(bt))
	case "quant":
		n := env
		var bs []*Term
		for _, b := range x.Binds {
			t := env.resolveType(b.Type)
			TC.fresh++
			bv := BVar(fmt.Sprintf("%s!%d", b.Name, TC.fresh), sortOf(t))
			bs = append(bs, bv)
			n = n.with(b.Name, bv, t)
		}
		body, _ := n.tr(x.Args[0])
		if x.Op == "forall" {
			return Forall(bs, body), types.Typ[types.Bool]
		}
		return Exists(bs, body), types.Typ[types.Bool]
	case "conv":
		t := env.resolveType(x.Type)
		v, vt := env.tr(x.Args[0])
		return env.convert(v, vt, t), t
	case "complit":
		t := env.resolveTypeExpr(x.Args[0])
		si := structOf(t)
		if si == nil {
			env.fail("composite literal of non-struct type %s", x.Args[0])
		}
		args := make([]*Term, len(si.fields))
		for i := range args {
			args[i] = zeroOf(si.typ.Field(i).Type())
		}
		for k, b := range x.Binds {
			found := false
			for i := 0; i < si.typ.NumFields(); i++ {
				if si.typ.Field(i).Name() == b.Name {
					v, vt := env.tr(x.Args[k+1])
					args[i] = env.convert(v, vt, si.typ.Field(i).Type())
					found = true
				}
			}
			if !found {
				env.fail("type %s has no field %s", x.Args[0], b.Name)
			}
		}
		return si.Mk(args...), t
	case "call":
		return env.call(x)
	}
	env.fail("unsupported expression %s", x)
	return nil, nil
}

func (env *SpecEnv) isLocalName(name string) bool {
	if env.e == nil {
		return false
	}
	if _, ok := env.e.params[name]; ok {
		return true
	}
	return false
}

func (env *SpecEnv) convert(v *Term, from types.Type, to types.Type) *Term {
	ts := sortOf(to)
	switch {
	case v.Sort == ts && ts == "Int":
		if from == nil || isTimeTime(to) || isTimeTime(from) {
			return v
		}
		return convInt(from, to, v)
	case v.Sort == ts:
		return v
	case v.Sort == "Int" && ts == "F64":
		if c, ok := v.IsInt(); ok && from == nil {
			return f64Const(c.String())
		}
		return UF("i2f", "F64", v)
	case v.Sort == "F64" && ts == "Int":
		return UF("f2i", "Int", v)
	}
	env.fail("unsupported conversion to %s", typeKey(to))
	return nil
}

func (env *SpecEnv) binary(x *SExpr) (*Term, types.Type) {
	boolT := types.Typ[types.Bool]
	switch x.Op {
	case "&&":
		a, _ := env.tr(x.Args[0])
		b, _ := env.tr(x.Args[1])
		return And(a, b), boolT
	case "||":
		a, _ := env.tr(x.Args[0])
		b, _ := env.tr(x.Args[1])
		return Or(a, b), boolT
	case "==>":
		a, _ := env.tr(x.Args[0])
		b, _ := env.tr(x.Args[1])
		// simplify the consequent under the hypotheses (removes the has()-guards of map reads)
		m := map[*Term]*Term{}
		var atoms func(t *Term)
		atoms = func(t *Term) {
			if t.Op == "app" && t.Name == "and" {
				for _, c := range t.Args {
					atoms(c)
				}
				return
			}
			if t.Op == "app" && t.Name == "not" {
				m[t.Args[0]] = False
				return
			}
			if t.Op == "app" || t.Op == "var" {
				m[t] = True
			}
		}
		atoms(a)
		if len(m) > 0 {
			b = Subst(b, m)
		}
		return Imp(a, b), boolT
	case "<==>":
		a, _ := env.tr(x.Args[0])
		b, _ := env.tr(x.Args[1])
		return Eq(a, b), boolT
	}
	a, at := env.tr(x.Args[0])
	b, bt := env.tr(x.Args[1])
	a, b, t := env.coerce(a, at, b, bt)
	if a == nil || b == nil {
		env.fail("nil needs a typed operand in %s", x)
	}
	if a.Sort != b.Sort {
		env.fail("operand sorts differ in %s: %s vs %s", x, a.Sort, b.Sort)
	}
	switch x.Op {
	case "==":
		if t != nil {
			return eqTypedT(a, b, t), boolT
		}
		return Eq(a, b), boolT
	case "!=":
		if t != nil {
			return Not(eqTypedT(a, b, t)), boolT
		}
		return Neq(a, b), boolT
	}
	tokOf := map[string]token.Token{"+": token.ADD, "-": token.SUB, "*": token.MUL, "/": token.QUO, "%": token.REM,
		"<": token.LSS, "<=": token.LEQ, ">": token.GTR, ">=": token.GEQ, "&": token.AND, "|": token.OR, "^": token.XOR,
		"&^": token.AND_NOT, "<<": token.SHL, ">>": token.SHR}
	op := tokOf[x.Op]
	isCmp := op == token.LSS || op == token.LEQ || op == token.GTR || op == token.GEQ
	rt := t
	if isCmp {
		rt = boolT
	}
	switch a.Sort {
	case "Int":
		switch op {
		case token.ADD:
			return Add(a, b), rt
		case token.SUB:
			return Sub(a, b), rt
		case token.MUL:
			return Mul(a, b), rt
		case token.QUO:
			return GoDiv(a, b), rt
		case token.REM:
			return GoRem(a, b), rt
		case token.LSS:
			return Lt(a, b), rt
		case token.LEQ:
			return Le(a, b), rt
		case token.GTR:
			return Gt(a, b), rt
		case token.GEQ:
			return Ge(a, b), rt
		case token.AND, token.OR, token.XOR, token.AND_NOT:
			return bitopT(op, a, b, env.e), rt
		case token.SHL:
			if c, ok := b.IsInt(); ok && c.IsInt64() {
				return Mul(a, BigLit(pow2(int(c.Int64())))), rt
			}
		case token.SHR:
			if c, ok := b.IsInt(); ok && c.IsInt64() {
				return EDiv(a, BigLit(pow2(int(c.Int64())))), rt
			}
		}
	case "F64":
		switch op {
		case token.ADD:
			return fbin("fadd", a, b), rt
		case token.SUB:
			return fbin("fsub", a, b), rt
		case token.MUL:
			return fbin("fmul", a, b), rt
		case token.QUO:
			return fbin("fdiv", a, b), rt
		case token.LSS:
			return fcmp("flt", a, b), rt
		case token.LEQ:
			return fcmp("fle", a, b), rt
		case token.GTR:
			return fcmp("flt", b, a), rt
		case token.GEQ:
			return fcmp("fle", b, a), rt
		}
	case StrSort:
		switch op {
		case token.ADD:
			return strCat(a, b), rt
		case token.LSS:
			return strLt(a, b), rt
		case token.LEQ:
			return strLe(a, b), rt
		case token.GTR:
			return strLt(b, a), rt
		case token.GEQ:
			return strLe(b, a), rt
		}
	}
	env.fail("unsupported operator %s on %s", x.Op, a.Sort)
	return nil, nil
}

func eqTypedT(x, y *Term, t types.Type) *Term {
	switch sortOf(t) {
	case "Slice":
		if y == NilSlc {
			return Eq(SArr(x), NilLoc)
		}
		if x == NilSlc {
			return Eq(SArr(y), NilLoc)
		}
	case "Iface":
		if y == nilIface() {
			return Eq(ITag(x), IntLit(0))
		}
		if x == nilIface() {
			return Eq(ITag(y), IntLit(0))
		}
	}
	return Eq(x, y)
}

func (env *SpecEnv) call(x *SExpr) (*Term, types.Type) {
	fn := x.Args[0]
	args := x.Args[1:]
	intT := types.Typ[types.Int]
	if fn.Kind == "id" {
		if _, shadow := env.vars[fn.Name]; !shadow {
			switch fn.Name {
			case "len", "cap":
				v, t := env.tr(args[0])
				switch v.Sort {
				case "Slice":
					if fn.Name == "cap" {
						return SCap(v), intT
					}
					return SLen(v), intT
				case StrSort:
					return strLen(v), intT
				case "Loc":
					if _, ok := types.Unalias(t).Underlying().(*types.Map); ok {
						return Ite(Eq(v, NilLoc), IntLit(0), Select(env.e.getMem(env.cur, mapLenClass, mapLenSort), v)), intT
					}
				}
				if a, ok := types.Unalias(t).Underlying().(*types.Array); ok {
					return IntLit(a.Len()), intT
				}
				env.fail("len of %s", typeKey(t))
			case "old":
				if env.old == nil {
					env.fail("old() not available here")
				}
				return env.inState(env.old).tr(args[0])
			case "now":
				if env.outer == nil {
					return env.tr(args[0])
				}
				n := *env
				n.cur = env.outer
				n.outer = nil
				return n.tr(args[0])
			case "atlock":
				// the value of e right after the most recent lock acquisition on this path (entry state if none)
				snap := env.cur.lockSnap
				if snap == nil {
					snap = env.e.entry
				}
				return env.inState(snap).tr(args[0])
			case "before":
				if env.before == nil {
					env.fail("before() is only available in loop invariants")
				}
				// loop-entry state: both the heap and the locals as they were when the loop was entered
				n := env.inState(env.before)
				n.cellSt = env.before
				return n.tr(args[0])
			case "prev":
				if env.prev == nil {
					env.fail("prev() is only available in loop transition clauses")
				}
				n := env.inState(env.prev)
				n.cellSt = env.prev
				return n.tr(args[0])
			case "has":
				if a0 := args[0]; a0.Kind == "call" && a0.Args[0].Kind == "id" && (a0.Args[0].Name == "old" || a0.Args[0].Name == "before" || a0.Args[0].Name == "prev") {
					// has(old(m), k) would read the CURRENT contents of the map that m pointed to at
					// entry -- almost never what is meant, and a contract that is silently too weak
					env.fail("has(%s(m), k) reads the map's current contents: write %s(has(m, k))", a0.Args[0].Name, a0.Args[0].Name)
				}
				m, mt := env.tr(args[0])
				k, _ := env.tr(args[1])
				t, ok := types.Unalias(mt).Underlying().(*types.Map)
				if !ok {
					env.fail("has() needs a map")
				}
				if v, ok := env.mapViews[m.id]; ok {
					return Select(v[0], k), types.Typ[types.Bool]
				}
				d, ds, _, _ := mapClasses(t)
				return And(Neq(m, NilLoc), Select(Select(env.e.getMem(env.cur, d, ds), m), k)), types.Typ[types.Bool]
			case "seen":
				if env.curLoop == nil {
					env.fail("seen() outside a loop invariant")
				}
				k, _ := env.tr(args[0])
				for _, ins := range env.curLoop.header.Instrs {
					if nx, ok := ins.(*ssa.Next); ok {
						if rng, ok := nx.Iter.(*ssa.Range); ok {
							return Select(env.cells().cells[env.e.iterCells[rng]], k), types.Typ[types.Bool]
						}
					}
				}
				env.fail("seen(): loop is not a map range")
			case "called":
				cname := args[0].Name
				if args[0].Kind == "sel" && args[0].Args[0].Kind == "id" {
					cname = args[0].Args[0].Name + "." + args[0].Name
				}
				id, ok := env.e.calledCell[cname]
				if !ok {
					// a callee's contract applied at a call site: what the callee called is not
					// observable by the caller
					return Fresh("called_"+args[0].Name, "Bool"), types.Typ[types.Bool]
				}
				v := env.cells().cells[id]
				if v == nil {
					v = False
				}
				return v, types.Typ[types.Bool]
			case "calledwith":
				if len(args) != 3 {
					env.fail("calledwith(name, k, expr)")
				}
				key := fmt.Sprintf("%s|%s|%s", args[0].Name, args[1].Name, strings.Join(strings.Fields(args[2].String()), ""))
				for _, g := range env.e.calledWith {
					gk := fmt.Sprintf("%s|%d|", g.name, g.k)
					if strings.HasPrefix(key, gk) && g.name == args[0].Name {
						// match on (name, k) and the expression text modulo spacing/parenthesisation
						if x, err := ParseSpec(g.expr); err == nil && strings.Join(strings.Fields(x.String()), "") == strings.Join(strings.Fields(args[2].String()), "") {
							v := env.cells().cells[g.cell]
							if v == nil {
								v = False
							}
							return v, types.Typ[types.Bool]
						}
					}
				}
				if env.atCallSite {
					return Fresh("calledwith_"+args[0].Name, "Bool"), types.Typ[types.Bool]
				}
				env.fail("calledwith(%s, ...): no ghost was set up for this clause", args[0].Name)
			case "callrecv":
				as, ok := env.e.callArgs[args[0].Name+"@recv"]
				if !ok && env.atCallSite {
					env.fail("@skip: callrecv() of a callee is not observable at its call sites")
				}
				if !ok || len(as) != 1 {
					env.fail("callrecv(%s): no such method call before this point", args[0].Name)
				}
				return as[0].v, as[0].t
			case "callarg":
				as, ok := env.e.callArgs[args[0].Name]
				var k int
				fmt.Sscan(args[1].Name, &k)
				if (!ok || k >= len(as)) && env.atCallSite {
					env.fail("@skip: callarg() of a callee is not observable at its call sites")
				}
				if !ok || k >= len(as) {
					env.fail("callarg(%s, %d): no such call/argument before this point", args[0].Name, k)
				}
				return as[k].v, as[k].t
			case "first", "second", "third":
				idx := map[string]int{"first": 0, "second": 1, "third": 2}[fn.Name]
				if len(args) != 1 || args[0].Kind != "call" {
					env.fail("%s() needs a call to a pure function", fn.Name)
				}
				env2 := *env
				env2.pureIdx = idx
				t, ty, ok := env2.pureCall(args[0].Args[0], args[0].Args[1:])
				if !ok {
					env.fail("%s(): not a pure function call", fn.Name)
				}
				return t, ty
			case "panicking":
				// the deferred function under contract was entered while its caller panics
				env.e.ensurePanicCells(env.cur)
				return env.e.panickingVar, types.Typ[types.Bool]
			case "recovered":
				env.e.ensurePanicCells(env.cur)
				v := env.cells().cells[env.e.recoveredCell]
				if v == nil {
					v = False
				}
				return v, types.Typ[types.Bool]
			case "callresult":
				// first result of the (unique) earlier call to the named function in this unit
				idx := "0"
				if len(args) > 1 {
					idx = args[1].Name
				}
				rname := args[0].Name
				if args[0].Kind == "sel" {
					// p.M or p.f.g.M: the call qualified by its receiver (a parameter or a field chain from one)
					q := args[0].Name
					x := args[0].Args[0]
					for x.Kind == "sel" {
						q = x.Name + "." + q
						x = x.Args[0]
					}
					if x.Kind == "id" {
						rname = x.Name + "." + q
					}
				}
				if r, ok := env.e.callResults[rname+"/"+idx]; ok {
					return r.v, r.t
				}
				if env.atCallSite {
					env.fail("@skip: callresult() of a callee is not observable at its call sites")
				}
				// the call exists in the unit but was not executed on the way here: its result is
				// not constrained on this path
				var kk int
				fmt.Sscan(idx, &kk)
				if rt := env.e.staticCallResultType(rname, kk); rt != nil {
					return Fresh("nocall_"+args[0].Name, sortOf(rt)), rt
				}
				env.fail("callresult(%s): no such contracted call was executed before this point", args[0].Name)
			case "fresh":
				v, _ := env.tr(args[0])
				if env.old == nil {
					env.fail("fresh() needs a pre-state")
				}
				if v.Sort == "Slice" {
					v = SArr(v) // a slice is fresh when its backing array is
				}
				return And(Le(env.old.ctr, Root(v)), Lt(Root(v), env.cur.ctr)), types.Typ[types.Bool]
			case "newinloop":
				// the object (or backing array of the slice) was allocated after the loop was entered
				v, _ := env.tr(args[0])
				if env.before == nil {
					env.fail("newinloop() is only available in loop invariants")
				}
				if v.Sort == "Slice" {
					v = SArr(v)
				}
				return Le(env.before.ctr, Root(v)), types.Typ[types.Bool]
			case "samearray":
				a, _ := env.tr(args[0])
				b, _ := env.tr(args[1])
				return And(Eq(SArr(a), SArr(b)), Eq(SOff(a), SOff(b))), types.Typ[types.Bool]
			case "distinctarr":
				// two slices over different backing arrays (no element of one is an element of the other)
				a, _ := env.tr(args[0])
				b, _ := env.tr(args[1])
				return Not(Eq(SArr(a), SArr(b))), types.Typ[types.Bool]
			case "allocated":
				v, _ := env.tr(args[0])
				return And(Lt(Root(v), env.cur.ctr)), types.Typ[types.Bool]
			case "typeis":
				v, _ := env.tr(args[0])
				t := env.resolveTypeExpr(args[1])
				return Eq(ITag(v), IntLit(int64(typeID(t)))), types.Typ[types.Bool]
			case "as":
				v, _ := env.tr(args[0])
				t := env.resolveTypeExpr(args[1])
				return Unbox(v, sortOf(t)), t
			case "ite":
				c, _ := env.tr(args[0])
				a, at := env.tr(args[1])
				b, bt := env.tr(args[2])
				a, b, t := env.coerce(a, at, b, bt)
				return Ite(c, a, b), t
			case "min", "max":
				a, at := env.tr(args[0])
				b, bt := env.tr(args[1])
				a, b, t := env.coerce(a, at, b, bt)
				if fn.Name == "min" {
					return Ite(Le(a, b), a, b), t
				}
				return Ite(Le(a, b), b, a), t
			case "gf", "gfi":
				// gf(obj, name, Type): specification-only field `name` of the object obj points to;
				// gfi: the same, attached to an interface value
				o, _ := env.tr(args[0])
				t := env.resolveTypeExpr(args[2])
				cl, so := ghostClass(args[1].Name, t)
				if fn.Name == "gfi" {
					cl, so = "GI|"+args[1].Name, arraySort("Iface", sortOf(t))
				}
				return Select(env.e.getMem(env.cur, cl, so), o), t
			case "str":
				// string(b) for a byte slice: a function of the slice header and the byte memory
				b, bt := env.tr(args[0])
				if sl, ok := types.Unalias(bt).Underlying().(*types.Slice); ok {
					cl, so := memClass(sl.Elem())
					return UF("bytes2str", StrSort, b, env.e.getMem(env.cur, cl, so)), types.Typ[types.String]
				}
				env.fail("str() needs a byte slice")
			case "chr":
				c, _ := env.tr(args[0])
				if StrSort == "String" {
					return App("str.from_code", "String", c), types.Typ[types.String]
				}
				return UF("runestr", StrSort, c), types.Typ[types.String]
			case "emod":
				a, at := env.tr(args[0])
				b, _ := env.tr(args[1])
				return EMod(a, b), at
			case "ediv":
				a, at := env.tr(args[0])
				b, _ := env.tr(args[1])
				return EDiv(a, b), at
			case "strcontains":
				a, _ := env.tr(args[0])
				b, _ := env.tr(args[1])
				return strOp("str.contains", "Bool", a, b), types.Typ[types.Bool]
			case "strprefix":
				a, _ := env.tr(args[0])
				b, _ := env.tr(args[1])
				return strOp("str.prefixof", "Bool", b, a), types.Typ[types.Bool]
			case "strsuffix":
				a, _ := env.tr(args[0])
				b, _ := env.tr(args[1])
				return strOp("str.suffixof", "Bool", b, a), types.Typ[types.Bool]
			case "strindexof":
				a, _ := env.tr(args[0])
				b, _ := env.tr(args[1])
				c, _ := env.tr(args[2])
				return strOp("str.indexof", "Int", a, b, c), intT
			case "strreplaceall":
				a, _ := env.tr(args[0])
				b, _ := env.tr(args[1])
				c, _ := env.tr(args[2])
				return strOp("str.replace_all", StrSort, a, b, c), types.Typ[types.String]
			case "uf":
				// uf("name", ResultType, args...) : uninterpreted function application
				name := args[0].Name
				rt := env.resolveTypeExpr(args[1])
				var as []*Term
				for _, a := range args[2:] {
					v, _ := env.tr(a)
					as = append(as, v)
				}
				return UF("uf_"+name, sortOf(rt), as...), rt
			}
		}
	}
	// conversion?
	if t := env.tryType(fn); t != nil && len(args) == 1 {
		v, vt := env.tr(args[0])
		return env.convert(v, vt, t), t
	}
	// spec function
	if fn.Kind == "id" {
		if sf := env.findSpec(fn.Name); sf != nil {
			return env.applySpec(sf, args)
		}
	}
	if fn.Kind == "sel" && fn.Args[0].Kind == "id" {
		if p := env.lookupPkg(fn.Args[0].Name); p != nil {
			if sf, ok := env.e.P.cs.Specs[p.Path()+"."+fn.Name]; ok {
				return env.applySpec(sf, args)
			}
		}
	}
	// call through a function value (a parameter or a spec variable of function type)
	if fn.Kind == "id" {
		var fv *Term
		var ft types.Type
		if v, ok := env.vars[fn.Name]; ok {
			fv, ft = v.v, v.t
		} else if env.e != nil {
			if pv, ok := env.e.params[fn.Name]; ok {
				fv, ft = pv.T, env.e.paramTy[fn.Name]
			}
		}
		if fv != nil && ft != nil {
			if sig, ok := types.Unalias(ft).Underlying().(*types.Signature); ok && sig.Results().Len() == 1 {
				as := []*Term{fv}
				for _, a := range args {
					v, _ := env.tr(a)
					as = append(as, v)
				}
				rt := sig.Results().At(0).Type()
				return UF("apply!"+sigKey(ft), sortOf(rt), as...), rt
			}
		}
	}
	// pure method / function with a contract
	if t, ty, ok := env.pureCall(fn, args); ok {
		return t, ty
	}
	env.fail("unknown function in contract: %s", fn)
	return nil, nil
}

func ghostClass(name string, t types.Type) (string, string) {
	return "G|" + name, arraySort("Loc", sortOf(t))
}

func (env *SpecEnv) resolveTypeExpr(x *SExpr) types.Type {
	if t := env.tryType(x); t != nil {
		return t
	}
	if x.Kind == "un" && x.Op == "*" {
		return types.NewPointer(env.resolveTypeExpr(x.Args[0]))
	}
	env.fail("not a type: %s", x)
	return nil
}

func (env *SpecEnv) findSpec(name string) *SpecFunc {
	cs := env.e.P.cs
	if env.pkg != nil {
		if sf, ok := cs.Specs[env.pkg.Path()+"."+name]; ok {
			return sf
		}
	}
	if sf, ok := cs.Specs["."+name]; ok {
		return sf
	}
	return nil
}

type recDef struct {
	params []*Term
	body   *Term
}

var recDefs = map[string]*recDef{}
var recSpecDone = map[string]bool{}
var recPass1 = map[string]bool{}
var recSpecMem = map[string][][2]string{}

func (env *SpecEnv) applySpec(sf *SpecFunc, args []*SExpr) (*Term, types.Type) {
	if len(args) != len(sf.Params) {
		env.fail("spec %s: %d arguments, want %d", sf.Name, len(args), len(sf.Params))
	}
	if env.depth > 40 {
		env.fail("spec %s: expansion too deep (mark it rec)", sf.Name)
	}
	// the spec's own package for name resolution
	defEnv := *env
	if sf.PkgPath != "" {
		if p := env.e.P.typesPkg(sf.PkgPath); p != nil {
			defEnv.pkg = p
		}
	}
	var avs []*Term
	var ats []types.Type
	for i, a := range args {
		v, vt := env.tr(a)
		var pt types.Type
		if vt != nil && vt != types.Typ[types.UntypedNil] {
			pt = defEnv.tryResolveType(sf.Params[i].Type)
			if pt == nil || sortOf(pt) == sortOf(vt) {
				pt = vt
			}
		} else {
			pt = defEnv.resolveType(sf.Params[i].Type)
		}
		if v == nil { // nil
			v = zeroOf(pt)
		}
		if vt == nil && v.Sort == "Int" && sortOf(pt) == "F64" {
			if c, ok := v.IsInt(); ok {
				v = f64Const(c.String())
			}
		}
		if v.Sort != sortOf(pt) {
			env.fail("spec %s: argument %d has sort %s, want %s", sf.Name, i, v.Sort, sortOf(pt))
		}
		avs = append(avs, v)
		ats = append(ats, pt)
	}
	rt := defEnv.tryResolveType(sf.Result)
	if sf.Rec {
		if rt == nil {
			env.fail("spec %s: cannot resolve result type %s", sf.Name, sf.Result)
		}
		// map parameters are passed as (domain, values) arrays
		var callArgs []*Term
		for i, v := range avs {
			if mt, ok := types.Unalias(ats[i]).Underlying().(*types.Map); ok {
				if vw, ok := env.mapViews[v.id]; ok {
					callArgs = append(callArgs, vw[0], vw[1])
				} else {
					d, ds, vc, vs := mapClasses(mt)
					dom := Ite(Eq(v, NilLoc), ConstArray(arrayElemSort(ds), False), Select(env.e.getMem(env.cur, d, ds), v))
					callArgs = append(callArgs, dom, Select(env.e.getMem(env.cur, vc, vs), v))
				}
			} else {
				callArgs = append(callArgs, v)
			}
		}
		name := "spec!" + sf.Name
		if recPass1[name] {
			// class discovery pass: the value of the recursive call is irrelevant
			return BVar("rec!dummy!"+sortOf(rt), sortOf(rt)), rt
		}
		if !recSpecDone[name] {
			recSpecDone[name] = true
			var recParamList []*Term
			build := func(st *State) (*Term, []string) {
				var ps []string
				recParamList = nil
				n := &defEnv
				n.vars = map[string]specVar{}
				n.scopePos = token.NoPos
				n.cur, n.old, n.before, n.cellSt = st, nil, nil, nil
				n.mapViews = map[int][2]*Term{}
				for i, p := range sf.Params {
					bv := BVar("a!"+p.Name, sortOf(ats[i]))
					if mt, ok := types.Unalias(ats[i]).Underlying().(*types.Map); ok {
						_, ds, _, vs := mapClasses(mt)
						dom := BVar("a!"+p.Name+"!dom", arrayElemSort(ds))
						val := BVar("a!"+p.Name+"!val", arrayElemSort(vs))
						ps = append(ps, fmt.Sprintf("(%s %s)", dom.Name, dom.Sort), fmt.Sprintf("(%s %s)", val.Name, val.Sort))
						recParamList = append(recParamList, dom, val)
						views := n.mapViews
						n = n.with(p.Name, bv, ats[i])
						n.mapViews = views
						n.mapViews[bv.id] = [2]*Term{dom, val}
						continue
					}
					ps = append(ps, fmt.Sprintf("(%s %s)", bv.Name, bv.Sort))
					recParamList = append(recParamList, bv)
					n = n.with(p.Name, bv, ats[i])
				}
				n.depth = 0
				x, err := sf.Body.Expr()
				if err != nil {
					env.fail("%v", err)
				}
				body, _ := n.tr(x)
				return body, ps
			}
			// pass 1: which memory classes does the body read?
			recPass1[name] = true
			st1 := &State{reach: True, cells: map[int]*Term{}, mem: map[string]*Term{}, recMem: map[string]*Term{}, ctr: Var("ctr@0", "Int")}
			build(st1)
			delete(recPass1, name)
			var classes []string
			for c := range st1.recMem {
				classes = append(classes, c)
			}
			sort.Strings(classes)
			var cinfo [][2]string
			for _, c := range classes {
				cinfo = append(cinfo, [2]string{c, st1.recMem[c].Sort})
			}
			recSpecMem[name] = cinfo
			// pass 2: the definition, with those classes as extra parameters
			st2 := &State{reach: True, cells: map[int]*Term{}, mem: map[string]*Term{}, recMem: map[string]*Term{}, ctr: Var("ctr@0", "Int")}
			for _, ci := range cinfo {
				st2.recMem[ci[0]] = BVar("m!"+sanitize(ci[0]), ci[1])
			}
			TC.Declare(name, "")
			body, ps := build(st2)
			for _, ci := range cinfo {
				ps = append(ps, fmt.Sprintf("(%s %s)", st2.recMem[ci[0]].Name, ci[1]))
			}
			var sb strings.Builder
			body.write(&sb, nil)
			// declared uninterpreted; its defining equation is added per ground application
			// (bounded unfolding) by the instantiation step
			var psorts []string
			for _, pb := range recParamList {
				psorts = append(psorts, pb.Sort)
			}
			for _, ci := range cinfo {
				psorts = append(psorts, ci[1])
				recParamList = append(recParamList, st2.recMem[ci[0]])
			}
			_ = sb
			TC.decls[name] = fmt.Sprintf("(declare-fun %s (%s) %s)", name, strings.Join(psorts, " "), sortOf(rt))
			recDefs[name] = &recDef{params: recParamList, body: body}
			var deps []string
			seen := map[int]bool{}
			var walk func(t *Term)
			walk = func(t *Term) {
				if seen[t.id] {
					return
				}
				seen[t.id] = true
				if t.Op == "var" || t.Op == "app" {
					deps = append(deps, t.Name)
				}
				for _, a := range t.Args {
					walk(a)
				}
			}
			walk(body)
			TC.deps[name] = deps
			for i, o := range TC.order {
				if o == name {
					TC.order = append(TC.order[:i], TC.order[i+1:]...)
					break
				}
			}
			TC.order = append(TC.order, name)
		}
		for _, ci := range recSpecMem[name] {
			callArgs = append(callArgs, env.e.getMem(env.cur, ci[0], ci[1]))
		}
		return App(name, sortOf(rt), callArgs...), rt
	}
	n := &defEnv
	n.vars = map[string]specVar{}
	for i, p := range sf.Params {
		n = n.with(p.Name, avs[i], ats[i])
	}
	n.depth = env.depth + 1
	n.scopePos = token.NoPos
	n.results = nil
	x, err := sf.Body.Expr()
	if err != nil {
		env.fail("%v", err)
	}
	v, vt := n.tr(x)
	if rt == nil {
		rt = vt
	}
	if v == nil {
		v = zeroOf(rt)
	}
	if c, ok := v.IsInt(); ok && rt != nil && sortOf(rt) == "F64" {
		v = f64Const(c.String())
	}
	return v, rt
}

func (env *SpecEnv) tryResolveType(text string) (t types.Type) {
	defer func() {
		if r := recover(); r != nil {
			if _, ok := r.(specErr); ok {
				t = nil
				return
			}
			panic(r)
		}
	}()
	return env.resolveType(text)
}

// pureCall models a call to a function whose contract is marked pure as an uninterpreted
// function of its arguments (the same symbol is used at real call sites).
func (env *SpecEnv) pureCall(fn *SExpr, args []*SExpr) (*Term, types.Type, bool) {
	var recv *Term
	var key string
	var sig *types.Signature
	switch fn.Kind {
	case "sel":
		if b := fn.Args[0]; b.Kind == "id" && !env.isLocalName(b.Name) {
			if _, shadow := env.vars[b.Name]; !shadow {
				if p := env.lookupPkg(b.Name); p != nil {
					if f, ok := p.Scope().Lookup(fn.Name).(*types.Func); ok {
						key = p.Path() + "." + fn.Name
						sig = f.Type().(*types.Signature)
					}
				}
			}
		}
		if key == "" {
			bv, bt := env.tr(fn.Args[0])
			obj, index, _ := types.LookupFieldOrMethod(bt, true, env.pkg, fn.Name)
			if obj == nil {
				if n := namedOf(bt); n != nil && n.Obj().Pkg() != nil {
					obj, index, _ = types.LookupFieldOrMethod(bt, true, n.Obj().Pkg(), fn.Name)
				}
			}
			f, ok := obj.(*types.Func)
			if !ok {
				return nil, nil, false
			}
			if len(index) > 1 {
				// a method promoted from an embedded field: the receiver is that field's value,
				// which the contract has to spell out
				env.fail("%s is promoted from an embedded field of %s: write the embedded field explicitly (x.<field>.%s())", fn.Name, typeKey(bt), fn.Name)
			}
			key = funcObjKey(f)
			sig = f.Type().(*types.Signature)
			recv = bv
		}
	case "id":
		if env.pkg != nil {
			if f, ok := env.pkg.Scope().Lookup(fn.Name).(*types.Func); ok {
				key = env.pkg.Path() + "." + fn.Name
				sig = f.Type().(*types.Signature)
			}
		}
	}
	if key == "" {
		return nil, nil, false
	}
	con := env.e.P.cs.Funcs[key]
	if con == nil || !con.Pure {
		env.fail("call to %s in a contract: it has no pure contract", key)
	}
	var as []*Term
	if recv != nil {
		as = append(as, recv)
	}
	for i, a := range args {
		v, _ := env.tr(a)
		if v == nil && i < sig.Params().Len() {
			v = zeroOf(sig.Params().At(i).Type())
		}
		as = append(as, v)
	}
	ridx := 0
	if sig.Results().Len() != 1 {
		ridx = env.pureIdx
		if ridx < 0 || ridx >= sig.Results().Len() {
			env.fail("pure function %s has %d results: select one with first()/second()", key, sig.Results().Len())
		}
	}
	rt := sig.Results().At(ridx).Type()
	con.used++
	name := "pure!" + key
	if sig.Results().Len() > 1 {
		name = fmt.Sprintf("pure!%s#%d", key, ridx)
	}
	if sig.Variadic() {
		name = fmt.Sprintf("%s/%d", name, len(args)-(sig.Params().Len()-1))
	}
	return UF(name, sortOf(rt), as...), rt, true
}

func funcObjKey(f *types.Func) string {
	sig := f.Type().(*types.Signature)
	if r := sig.Recv(); r != nil {
		t := types.Unalias(r.Type())
		if p, ok := t.(*types.Pointer); ok {
			return "(*" + typeKeyNoArgs(p.Elem()) + ")." + f.Name()
		}
		return "(" + typeKeyNoArgs(t) + ")." + f.Name()
	}
	if f.Pkg() == nil {
		return f.Name()
	}
	return f.Pkg().Path() + "." + f.Name()
}

func typeKeyNoArgs(t types.Type) string {
	if n, ok := types.Unalias(t).(*types.Named); ok {
		if n.Obj().Pkg() != nil {
			s := n.Obj().Pkg().Path() + "." + n.Obj().Name()
			if tp := n.Origin().TypeParams(); tp != nil && tp.Len() > 0 {
				var ns []string
				for i := 0; i < tp.Len(); i++ {
					ns = append(ns, tp.At(i).Obj().Name())
				}
				s += "[" + strings.Join(ns, ",") + "]"
			}
			return s
		}
		return n.Obj().Name()
	}
	return typeKey(t)
}
