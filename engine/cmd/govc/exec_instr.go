package main

import (
	"fmt"
	"go/constant"
	"go/token"
	"go/types"
	"math/big"
	"strings"

	"golang.org/x/tools/go/ssa"
)

// typeFacts: facts every well-typed Go value satisfies (machine ranges, slice header shape,
// references point to already-allocated objects).
func (e *FnExec) typeFacts(t types.Type, v *Term, st *State) *Term {
	t = types.Unalias(t)
	if isTimeTime(t) {
		return True
	}
	if si := structOf(t); si != nil {
		var fs []*Term
		for i := 0; i < si.typ.NumFields(); i++ {
			fs = append(fs, e.typeFacts(si.typ.Field(i).Type(), si.Get(v, i), st))
		}
		return And(fs...)
	}
	switch sortOf(t) {
	case "Int":
		if _, ok := t.Underlying().(*types.Signature); ok {
			return True
		}
		if f := rangeFact(t, v); f != nil {
			return f
		}
	case "Slice":
		return And(Le(IntLit(0), SLen(v)), Le(SLen(v), SCap(v)), Le(IntLit(0), SOff(v)), Lt(Root(SArr(v)), st.ctr),
			// physical bound: no existing slice has more than 2^46 elements (listed assumption)
			Le(SCap(v), BigLit(pow2(46))),
			Imp(Eq(SArr(v), NilLoc), And(Eq(SLen(v), IntLit(0)), Eq(SCap(v), IntLit(0)))))
	case "Loc":
		return Lt(Root(v), st.ctr)
	case "Iface":
		return Le(IntLit(0), ITag(v))
	}
	return True
}

func bigOfConst(c constant.Value) *big.Int {
	if i, ok := constant.Int64Val(c); ok {
		return big.NewInt(i)
	}
	b, _ := new(big.Int).SetString(c.ExactString(), 10)
	return b
}

func (e *FnExec) constVal(c *ssa.Const) *Term {
	t := c.Type()
	if c.Value == nil {
		return zeroOf(t)
	}
	switch sortOf(t) {
	case "Int":
		if c.Value.Kind() == constant.Int {
			return BigLit(bigOfConst(c.Value))
		}
		if c.Value.Kind() == constant.Float {
			if i := constant.ToInt(c.Value); i.Kind() == constant.Int {
				return BigLit(bigOfConst(i))
			}
		}
	case "Bool":
		return BoolLit(constant.BoolVal(c.Value))
	case StrSort:
		return StrLit(constant.StringVal(c.Value))
	case "F64":
		return f64Const(c.Value.ExactString())
	}
	return Fresh("const", sortOf(t))
}

var globalIDs = map[*ssa.Global]int64{}
var funcIDs = map[*ssa.Function]int64{}

func (e *FnExec) val(st *State, v ssa.Value) Val {
	if x, ok := e.vals[v]; ok {
		return x
	}
	switch x := v.(type) {
	case *ssa.Const:
		return Val{T: e.constVal(x)}
	case *ssa.Global:
		id, ok := globalIDs[x]
		if !ok {
			id = -int64(len(globalIDs) + 1)
			globalIDs[x] = id
		}
		return Val{T: MkLoc(IntLit(id), PNil)}
	case *ssa.Function:
		id, ok := funcIDs[x]
		if !ok {
			id = int64(len(funcIDs) + 1)
			funcIDs[x] = id
		}
		return Val{T: IntLit(id)}
	case *ssa.FreeVar:
		t := Var("fv_"+x.Name(), sortOf(x.Type()))
		r := Val{T: t}
		e.vals[v] = r
		e.facts = append(e.facts, e.typeFacts(x.Type(), t, e.entry), Neq(t, NilLoc))
		return r
	case *ssa.Alloc:
		if id, ok := e.cellOf[x]; ok {
			return Val{LP: &LocalPtr{cell: id}}
		}
	case *ssa.Phi:
		if id, ok := e.cellOf[x]; ok {
			return Val{LP: &LocalPtr{cell: id}}
		}
	case *ssa.Builtin:
		return Val{T: IntLit(0)}
	}
	e.unsupported("value %s (%T) used before definition in %s", v.Name(), v, e.key)
	return Val{}
}

func (e *FnExec) term(st *State, v ssa.Value) *Term {
	x := e.val(st, v)
	if x.T == nil {
		e.unsupported("value %s = %s is not a term (pointer to local or tuple) in %s", v.Name(), v.String(), e.key)
	}
	return x.T
}

func (e *FnExec) set(v ssa.Value, t *Term) { e.vals[v] = Val{T: t} }

// setFresh gives v an unconstrained value of its type.
func (e *FnExec) setFresh(st *State, v ssa.Value, why string) *Term {
	if tup, ok := v.Type().(*types.Tuple); ok {
		var vs []Val
		for i := 0; i < tup.Len(); i++ {
			t := Fresh("hv_"+v.Name(), sortOf(tup.At(i).Type()))
			e.addFact(st, e.typeFacts(tup.At(i).Type(), t, st))
			vs = append(vs, Val{T: t})
		}
		e.vals[v] = Val{Tuple: vs}
		return nil
	}
	t := Fresh("hv_"+v.Name(), sortOf(v.Type()))
	e.addFact(st, e.typeFacts(v.Type(), t, st))
	e.set(v, t)
	return t
}

func (e *FnExec) assertNonNil(st *State, p *Term, pos token.Pos, what string) {
	if p.Op == "app" && p.Name == "mkloc" {
		if r, ok := p.Args[0].IsInt(); ok && r.Sign() != 0 {
			return
		}
	}
	if b, ok := e.nonNil[p.id]; ok && b.Dominates(e.curBlock) {
		return
	}
	e.nonNil[p.id] = e.curBlock
	e.assert(st, "nil", Neq(p, NilLoc), pos, what, "")
}

func (e *FnExec) alloc(st *State) *Term {
	l := MkLoc(st.ctr, PNil)
	st.ctr = Add(st.ctr, IntLit(1))
	return l
}

func fbin(name string, a, b *Term) *Term { return UF(name, "F64", a, b) }
func fcmp(name string, a, b *Term) *Term { return UF(name, "Bool", a, b) }
func bitOf(x *Term, b int) *Term {
	return EMod(EDiv(x, BigLit(pow2(b))), IntLit(2))
}

// bitop models &, |, ^, &^ on non-negative integers; exact when one side is a constant,
// otherwise an uninterpreted function with a conditional 8-bit expansion.
func (e *FnExec) bitop(op token.Token, a, b *Term) *Term { return bitopT(op, a, b, e) }

func bitopT(op token.Token, a, b *Term, e *FnExec) *Term {
	ca, oka := a.IsInt()
	cb, okb := b.IsInt()
	if oka && okb && ca.Sign() >= 0 && cb.Sign() >= 0 {
		r := new(big.Int)
		switch op {
		case token.AND:
			return BigLit(r.And(ca, cb))
		case token.OR:
			return BigLit(r.Or(ca, cb))
		case token.XOR:
			return BigLit(r.Xor(ca, cb))
		case token.AND_NOT:
			return BigLit(r.AndNot(ca, cb))
		}
	}
	if oka && !okb && op != token.AND_NOT {
		a, b, ca, cb, oka, okb = b, a, cb, ca, okb, oka
	}
	if okb && cb.Sign() >= 0 && cb.BitLen() <= 64 {
		// exact per-bit expansion over the constant's bits (valid for a >= 0)
		var sum *Term = IntLit(0)
		switch op {
		case token.AND:
			for i := 0; i < cb.BitLen(); i++ {
				if cb.Bit(i) == 1 {
					sum = Add(sum, Mul(BigLit(pow2(i)), bitOf(a, i)))
				}
			}
			return sum
		case token.OR:
			sum = a
			for i := 0; i < cb.BitLen(); i++ {
				if cb.Bit(i) == 1 {
					sum = Add(sum, Mul(BigLit(pow2(i)), Sub(IntLit(1), bitOf(a, i))))
				}
			}
			return sum
		case token.AND_NOT:
			sum = a
			for i := 0; i < cb.BitLen(); i++ {
				if cb.Bit(i) == 1 {
					sum = Sub(sum, Mul(BigLit(pow2(i)), bitOf(a, i)))
				}
			}
			return sum
		case token.XOR:
			sum = a
			for i := 0; i < cb.BitLen(); i++ {
				if cb.Bit(i) == 1 {
					sum = Add(sum, Mul(BigLit(pow2(i)), Sub(IntLit(1), Mul(IntLit(2), bitOf(a, i)))))
				}
			}
			return sum
		}
	}
	name := map[token.Token]string{token.AND: "bitand", token.OR: "bitor", token.XOR: "bitxor", token.AND_NOT: "bitandnot"}[op]
	r := UF(name, "Int", a, b)
	// sound conditional expansion for operands below 2^8
	const W = 8
	var sum *Term = IntLit(0)
	for i := 0; i < W; i++ {
		ba, bb := Eq(bitOf(a, i), IntLit(1)), Eq(bitOf(b, i), IntLit(1))
		var c *Term
		switch op {
		case token.AND:
			c = And(ba, bb)
		case token.OR:
			c = Or(ba, bb)
		case token.XOR:
			c = Not(Eq(ba, bb))
		case token.AND_NOT:
			c = And(ba, Not(bb))
		}
		sum = Add(sum, Ite(c, BigLit(pow2(i)), IntLit(0)))
	}
	small := And(Le(IntLit(0), a), Lt(a, BigLit(pow2(W))), Le(IntLit(0), b), Lt(b, BigLit(pow2(W))))
	AddAxiom(name, True)
	ax := Imp(small, Eq(r, sum))
	bitAxioms[r.id] = ax
	if e != nil && !ax.open {
		e.facts = append(e.facts, ax)
	}
	return r
}

var bitAxioms = map[int]*Term{}

func (e *FnExec) binop(st *State, op token.Token, x, y *Term, xt types.Type, pos token.Pos) *Term {
	s := sortOf(xt)
	switch op {
	case token.EQL:
		return e.eqTyped(x, y, xt)
	case token.NEQ:
		return Not(e.eqTyped(x, y, xt))
	}
	switch s {
	case "Int":
		switch op {
		case token.ADD:
			return Add(x, y)
		case token.SUB:
			return Sub(x, y)
		case token.MUL:
			return Mul(x, y)
		case token.QUO:
			e.assert(st, "div0", Neq(y, IntLit(0)), pos, "integer division by zero", "")
			return GoDiv(x, y)
		case token.REM:
			e.assert(st, "div0", Neq(y, IntLit(0)), pos, "integer modulo by zero", "")
			return GoRem(x, y)
		case token.LSS:
			return Lt(x, y)
		case token.LEQ:
			return Le(x, y)
		case token.GTR:
			return Gt(x, y)
		case token.GEQ:
			return Ge(x, y)
		case token.AND, token.OR, token.XOR, token.AND_NOT:
			return e.bitop(op, x, y)
		case token.SHL:
			if c, ok := y.IsInt(); ok && c.IsInt64() && c.Int64() >= 0 && c.Int64() < 256 {
				return Mul(x, BigLit(pow2(int(c.Int64()))))
			}
			return UF("shl", "Int", x, y)
		case token.SHR:
			if c, ok := y.IsInt(); ok && c.IsInt64() && c.Int64() >= 0 && c.Int64() < 256 {
				return EDiv(x, BigLit(pow2(int(c.Int64()))))
			}
			return UF("shr", "Int", x, y)
		}
	case "F64":
		switch op {
		case token.ADD:
			return fbin("fadd", x, y)
		case token.SUB:
			return fbin("fsub", x, y)
		case token.MUL:
			return fbin("fmul", x, y)
		case token.QUO:
			return fbin("fdiv", x, y)
		case token.LSS:
			return fcmp("flt", x, y)
		case token.LEQ:
			return fcmp("fle", x, y)
		case token.GTR:
			return fcmp("flt", y, x)
		case token.GEQ:
			return fcmp("fle", y, x)
		}
	case StrSort:
		switch op {
		case token.ADD:
			return strCat(x, y)
		case token.LSS:
			return strLt(x, y)
		case token.LEQ:
			return strLe(x, y)
		case token.GTR:
			return strLt(y, x)
		case token.GEQ:
			return strLe(y, x)
		}
	case "Bool":
		switch op {
		case token.AND, token.LAND:
			return And(x, y)
		case token.OR, token.LOR:
			return Or(x, y)
		}
	}
	e.note("binary operator %s on %s abstracted (uninterpreted)", op, typeKey(xt))
	return UF("op_"+op.String()+"_"+s, s, x, y)
}

func (e *FnExec) eqTyped(x, y *Term, t types.Type) *Term {
	switch sortOf(t) {
	case "Slice":
		// only comparison with nil is legal
		if y == NilSlc {
			return Eq(SArr(x), NilLoc)
		}
		if x == NilSlc {
			return Eq(SArr(y), NilLoc)
		}
	case "Iface":
		if y == nilIface() {
			return Eq(ITag(x), IntLit(0))
		}
		if x == nilIface() {
			return Eq(ITag(y), IntLit(0))
		}
	}
	return Eq(x, y)
}

func (e *FnExec) execInstr(st *State, ins ssa.Instruction) {
	switch x := ins.(type) {
	case *ssa.DebugRef:
	case *ssa.Alloc:
		if id, ok := e.cellOf[x]; ok {
			st.cells[id] = zeroOf(e.cellType[id])
			return
		}
		l := e.alloc(st)
		et := x.Type().(*types.Pointer).Elem()
		e.store(st, l, et, zeroOf(et))
		for _, g := range e.P.cs.Ghosts {
			if g.TypeKey == typeKeyNoArgs(et) {
				env := &SpecEnv{pureIdx: -1, e: e, cur: st, vars: map[string]specVar{}, pkg: e.P.typesPkg(g.PkgPath)}
				if gt := env.tryResolveType(g.Type); gt != nil {
					cl, so := ghostClass(g.Name, gt)
					e.setMem(st, cl, so, Store(e.getMem(st, cl, so), l, zeroOf(gt)))
				}
			}
		}
		e.set(x, l)
	case *ssa.Phi:
		if _, ok := e.cellOf[x]; ok {
			return
		}
		if _, isHdr := e.loops[x.Block()]; isHdr {
			return // handled by enterLoop
		}
		e.set(x, e.phiMerge(x, false))
	case *ssa.Store:
		a := e.val(st, x.Addr)
		v := e.term(st, x.Val)
		if a.LP != nil {
			e.writeLP(st, a.LP, v)
			return
		}
		e.assertNonNil(st, a.T, x.Pos(), "store through nil pointer")
		e.storePos = x.Pos()
		if e.storePos == token.NoPos {
			e.storePos = token.Pos(1)
		}
		e.store(st, a.T, x.Val.Type(), v)
		e.storePos = token.NoPos
	case *ssa.UnOp:
		e.unop(st, x)
	case *ssa.BinOp:
		e.set(x, e.binop(st, x.Op, e.term(st, x.X), e.term(st, x.Y), x.X.Type(), x.Pos()))
	case *ssa.FieldAddr:
		b := e.val(st, x.X)
		stT := x.X.Type().Underlying().(*types.Pointer).Elem()
		if b.LP != nil {
			e.vals[x] = Val{LP: &LocalPtr{cell: b.LP.cell, path: append(append([]pstep{}, b.LP.path...), pstep{field: x.Field, typ: stT})}}
			return
		}
		e.assertNonNil(st, b.T, x.Pos(), "field access through nil pointer")
		si := structOf(stT)
		if si == nil {
			e.unsupported("FieldAddr on %s", typeKey(stT))
		}
		e.set(x, FldLoc(b.T, si.fids[x.Field]))
	case *ssa.Field:
		si := structOf(x.X.Type())
		if si == nil {
			e.unsupported("Field on %s", typeKey(x.X.Type()))
		}
		e.set(x, si.Get(e.term(st, x.X), x.Field))
	case *ssa.IndexAddr:
		e.indexAddr(st, x)
	case *ssa.Index:
		xt := x.X.Type().Underlying()
		i := e.term(st, x.Index)
		switch t := xt.(type) {
		case *types.Array:
			e.assert(st, "index", And(Le(IntLit(0), i), Lt(i, IntLit(t.Len()))), x.Pos(), "array index in range", "")
			e.set(x, Select(e.term(st, x.X), i))
		case *types.Basic: // string
			s := e.term(st, x.X)
			e.assert(st, "index", And(Le(IntLit(0), i), Lt(i, strLen(s))), x.Pos(), "string index in range", "")
			r := strAt(s, i)
			e.addFact(st, And(Le(IntLit(0), r), Lt(r, IntLit(256))))
			e.set(x, r)
		default:
			e.unsupported("Index on %s", typeKey(x.X.Type()))
		}
	case *ssa.Lookup:
		e.lookup(st, x)
	case *ssa.Slice:
		e.slice(st, x)
	case *ssa.MakeSlice:
		ln, cp := e.term(st, x.Len), e.term(st, x.Cap)
		// the runtime panics ("len out of range") beyond maxAlloc = 2^48 bytes
		e.assert(st, "make", And(Le(IntLit(0), ln), Le(ln, cp), Le(cp, BigLit(pow2(48)))), x.Pos(), "make: 0 <= len <= cap <= 2^48", "")
		arr := e.alloc(st)
		et := x.Type().Underlying().(*types.Slice).Elem()
		e.zeroElems(st, arr, et)
		e.set(x, MkSlice(arr, IntLit(0), ln, cp))
	case *ssa.MakeMap:
		m := e.alloc(st)
		mt := x.Type().Underlying().(*types.Map)
		d, ds, v, vs := mapClasses(mt)
		e.setMem(st, d, ds, Store(e.getMem(st, d, ds), m, ConstArray(arrayElemSort(ds), False)))
		e.setMem(st, v, vs, Store(e.getMem(st, v, vs), m, ConstArray(arrayElemSort(vs), zeroOf(mt.Elem()))))
		e.setMem(st, mapLenClass, mapLenSort, Store(e.getMem(st, mapLenClass, mapLenSort), m, IntLit(0)))
		e.set(x, m)
	case *ssa.MakeChan:
		e.set(x, e.alloc(st))
	case *ssa.MakeClosure:
		id := Fresh("closure", "Int")
		e.closures[id] = x
		e.set(x, id)
	case *ssa.MakeInterface:
		v := e.term(st, x.X)
		t := x.X.Type()
		b := UF("box_"+sortOf(t)+"_"+fmt.Sprint(typeID(t)), "Iface", v)
		e.addFact(st, And(Eq(App("itag", "Int", b), IntLit(int64(typeID(t)))), Eq(UF("unbox_"+sortOf(t), sortOf(t), b), v)))
		e.set(x, b)
	case *ssa.ChangeInterface:
		e.set(x, e.term(st, x.X))
	case *ssa.ChangeType:
		v := e.term(st, x.X)
		if sortOf(x.Type()) != v.Sort {
			e.note("ChangeType %s -> %s changes representation: value abstracted", typeKey(x.X.Type()), typeKey(x.Type()))
			e.setFresh(st, x, "changetype")
			return
		}
		e.set(x, v)
	case *ssa.Convert:
		e.convert(st, x)
	case *ssa.MultiConvert:
		e.note("MultiConvert abstracted")
		e.setFresh(st, x, "multiconvert")
	case *ssa.TypeAssert:
		e.typeAssert(st, x)
	case *ssa.Extract:
		tv := e.val(st, x.Tuple)
		if tv.Tuple == nil {
			e.unsupported("extract from non-tuple")
		}
		e.vals[x] = tv.Tuple[x.Index]
	case *ssa.Range:
		e.rangeInit(st, x)
	case *ssa.Next:
		e.next(st, x)
	case *ssa.MapUpdate:
		e.mapUpdate(st, x)
	case *ssa.Call:
		e.call(st, x, x.Common(), x)
	case *ssa.Go:
		e.note("go statement at %s not modelled (spawned function is a separate unit)", e.pos(x.Pos()))
	case *ssa.Defer:
		st.defers = append(st.defers, x)
		// evaluate arguments now
		for _, a := range x.Call.Args {
			e.val(st, a)
		}
	case *ssa.RunDefers:
		e.runDefers(st, x)
	case *ssa.Send:
		e.send(st, x)
	case *ssa.Select:
		e.selectStmt(st, x)
	case *ssa.SliceToArrayPointer:
		e.setFresh(st, x, "slice to array pointer")
	case *ssa.Panic:
		if e.con == nil || !e.con.MayPanic {
			e.assert(st, "panic-reachable", False, x.Pos(), "explicit panic must be unreachable", "")
		}
		st.dead = true
		st.reach = False
	case *ssa.Return:
		e.doReturn(st, x)
	case *ssa.Jump:
		e.setEdge(st, x.Block(), 0, st.reach)
	case *ssa.If:
		c := e.term(st, x.Cond)
		if c != True && c != False {
			e.branchAtoms = append(e.branchAtoms, c)
		}
		e.setEdge(st, x.Block(), 0, And(st.reach, c))
		e.setEdge(st, x.Block(), 1, And(st.reach, Not(c)))
	default:
		e.unsupported("instruction %T (%s)", ins, ins)
	}
}

func (e *FnExec) setEdge(st *State, from *ssa.BasicBlock, idx int, cond *Term) {
	to := from.Succs[idx]
	if to.Dominates(from) {
		if li := e.loops[to]; li != nil {
			e.backEdge(st, from, li, cond)
		}
		return
	}
	e.edge[[2]int{from.Index*4 + idx, to.Index}] = cond
}

func (e *FnExec) zeroElems(st *State, arr *Term, et types.Type) {
	// fresh object: its element cells are unconstrained garbage in the entry arrays; write zero
	// through a quantified-free device: the class array at this root is replaced by a fresh array
	// equal to the old one except that every index of `arr` reads zero.
	e.eachScalar(et, nil, func(path []int, t types.Type) {
		class, sort := memClass(t)
		old := e.getMem(st, class, sort)
		nw := Fresh("mz", sort)
		l := BVar("l", "Loc")
		z := zeroOf(t)
		e.addFact(st, Forall([]*Term{l}, Ite(Eq(Root(l), Root(arr)), Eq(App("select", arrayElemSort(sort), nw, l), z), Eq(App("select", arrayElemSort(sort), nw, l), App("select", arrayElemSort(sort), old, l)))))
		e.setMem(st, class, sort, nw)
	})
}

// eachScalar enumerates the scalar leaf types of t.
func (e *FnExec) eachScalar(t types.Type, path []int, f func(path []int, t types.Type)) {
	t = types.Unalias(t)
	if si := structOf(t); si != nil {
		for i := 0; i < si.typ.NumFields(); i++ {
			e.eachScalar(si.typ.Field(i).Type(), append(path, i), f)
		}
		return
	}
	if a, ok := t.Underlying().(*types.Array); ok {
		e.eachScalar(a.Elem(), append(path, -1), f)
		return
	}
	f(path, t)
}

func (e *FnExec) unop(st *State, x *ssa.UnOp) {
	switch x.Op {
	case token.MUL:
		a := e.val(st, x.X)
		if a.LP != nil {
			e.set(x, e.readLP(st, a.LP))
			return
		}
		e.assertNonNil(st, a.T, x.Pos(), "load through nil pointer")
		v := e.load(st, a.T, x.Type())
		e.addFact(st, e.typeFacts(x.Type(), v, st))
		e.set(x, v)
	case token.NOT:
		e.set(x, Not(e.term(st, x.X)))
	case token.SUB:
		v := e.term(st, x.X)
		if v.Sort == "F64" {
			e.set(x, UF("fneg", "F64", v))
		} else {
			e.set(x, Neg(v))
		}
	case token.XOR:
		// ^x = -x-1 for signed; abstract for unsigned
		if lo, _, ok := intRange(x.Type()); ok && lo.Sign() < 0 {
			e.set(x, Sub(Neg(e.term(st, x.X)), IntLit(1)))
		} else {
			e.setFresh(st, x, "bit complement of unsigned")
		}
	case token.ARROW:
		e.note("channel receive at %s: received value unconstrained", e.pos(x.Pos()))
		e.setFresh(st, x, "chan recv")
		// opt nonnilrecv=<param>[,<param>]: what arrives on that channel parameter is never nil
		// (an assumption about the sender, listed in the evidence)
		if e.con != nil && e.con.Opts["nonnilrecv"] != "" {
			cname := ""
			switch c := x.X.(type) {
			case *ssa.Parameter:
				cname = c.Name()
			case *ssa.UnOp:
				if a, ok := c.X.(*ssa.Alloc); ok {
					cname = a.Comment
				}
			}
			for _, want := range strings.Split(e.con.Opts["nonnilrecv"], ",") {
				if want == cname && cname != "" {
					v := e.vals[x]
					var val, ok *Term
					if len(v.Tuple) == 2 {
						val, ok = v.Tuple[0].T, v.Tuple[1].T
					} else {
						val, ok = v.T, True
					}
					if val != nil && val.Sort == "Iface" {
						e.addFact(st, Imp(ok, Neq(ITag(val), IntLit(0))))
						e.assumed["values received from channel parameter "+cname+" are non-nil (opt nonnilrecv)"]++
					} else if val != nil && val.Sort == "Loc" {
						e.addFact(st, Imp(ok, Neq(val, NilLoc)))
						e.assumed["values received from channel parameter "+cname+" are non-nil (opt nonnilrecv)"]++
					}
				}
			}
		}
	default:
		e.unsupported("unary op %s", x.Op)
	}
}

func (e *FnExec) indexAddr(st *State, x *ssa.IndexAddr) {
	i := e.term(st, x.Index)
	b := e.val(st, x.X)
	switch t := x.X.Type().Underlying().(type) {
	case *types.Slice:
		s := b.T
		e.assert(st, "index", And(Le(IntLit(0), i), Lt(i, SLen(s))), x.Pos(), "slice index in range", "")
		e.set(x, IdxLoc(SArr(s), Add(SOff(s), i)))
	case *types.Pointer:
		at := t.Elem().Underlying().(*types.Array)
		e.assert(st, "index", And(Le(IntLit(0), i), Lt(i, IntLit(at.Len()))), x.Pos(), "array index in range", "")
		if b.LP != nil {
			e.vals[x] = Val{LP: &LocalPtr{cell: b.LP.cell, path: append(append([]pstep{}, b.LP.path...), pstep{field: -1, idx: i, typ: t.Elem()})}}
			return
		}
		e.assertNonNil(st, b.T, x.Pos(), "index through nil array pointer")
		e.set(x, IdxLoc(b.T, i))
	default:
		e.unsupported("IndexAddr on %s", typeKey(x.X.Type()))
	}
}

func (e *FnExec) lookup(st *State, x *ssa.Lookup) {
	switch t := x.X.Type().Underlying().(type) {
	case *types.Map:
		m := e.term(st, x.X)
		k := e.term(st, x.Index)
		d, ds, v, vs := mapClasses(t)
		has := Select(Select(e.getMem(st, d, ds), m), k)
		val := Select(Select(e.getMem(st, v, vs), m), k)
		// nil map: lookup yields zero
		has = And(Neq(m, NilLoc), has)
		res := Ite(has, val, zeroOf(t.Elem()))
		e.addFact(st, Imp(has, e.typeFacts(t.Elem(), val, st)))
		e.nLookups++
		e.inputs = append(e.inputs, NamedTerm{fmt.Sprintf("lookup%d.has", e.nLookups), has, "bool"})
		if val.Sort == "Int" || val.Sort == "Bool" || val.Sort == StrSort {
			e.inputs = append(e.inputs, NamedTerm{fmt.Sprintf("lookup%d.val", e.nLookups), val, typeKey(t.Elem())})
		}
		if val.Sort == "Iface" {
			e.inputs = append(e.inputs, NamedTerm{fmt.Sprintf("typeid(lookup%d.val)", e.nLookups), ITag(val), "int"})
		}
		if k.Sort == "Int" || k.Sort == StrSort {
			e.inputs = append(e.inputs, NamedTerm{fmt.Sprintf("lookup%d.key", e.nLookups), k, typeKey(t.Key())})
		}
		if x.CommaOk {
			e.vals[x] = Val{Tuple: []Val{{T: res}, {T: has}}}
		} else {
			e.set(x, res)
		}
	case *types.Basic:
		s := e.term(st, x.X)
		i := e.term(st, x.Index)
		e.assert(st, "index", And(Le(IntLit(0), i), Lt(i, strLen(s))), x.Pos(), "string index in range", "")
		r := strAt(s, i)
		e.addFact(st, And(Le(IntLit(0), r), Lt(r, IntLit(256))))
		e.set(x, r)
	default:
		e.unsupported("Lookup on %s", typeKey(x.X.Type()))
	}
}

func (e *FnExec) mapUpdate(st *State, x *ssa.MapUpdate) {
	t := x.Map.Type().Underlying().(*types.Map)
	m := e.term(st, x.Map)
	k := e.term(st, x.Key)
	v := e.term(st, x.Value)
	e.assert(st, "mapwrite", Neq(m, NilLoc), x.Pos(), "assignment to entry in nil map", "")
	d, ds, vc, vs := mapClasses(t)
	e.checkLoopFrames(st, d, m, x.Pos())
	dm := e.getMem(st, d, ds)
	vm := e.getMem(st, vc, vs)
	lm := e.getMem(st, mapLenClass, mapLenSort)
	had := Select(Select(dm, m), k)
	e.setMem(st, mapLenClass, mapLenSort, Store(lm, m, Ite(had, Select(lm, m), Add(Select(lm, m), IntLit(1)))))
	e.setMem(st, d, ds, Store(dm, m, Store(Select(dm, m), k, True)))
	e.setMem(st, vc, vs, Store(vm, m, Store(Select(vm, m), k, v)))
}

func (e *FnExec) slice(st *State, x *ssa.Slice) {
	b := e.val(st, x.X)
	opt := func(v ssa.Value, def *Term) *Term {
		if v == nil {
			return def
		}
		return e.term(st, v)
	}
	switch t := x.X.Type().Underlying().(type) {
	case *types.Slice:
		s := b.T
		lo := opt(x.Low, IntLit(0))
		hi := opt(x.High, SLen(s))
		mx := opt(x.Max, SCap(s))
		e.assert(st, "slice", And(Le(IntLit(0), lo), Le(lo, hi), Le(hi, mx), Le(mx, SCap(s))), x.Pos(), "slice bounds in range", "")
		// slicing a nil slice yields nil
		e.set(x, MkSlice(SArr(s), Add(SOff(s), lo), Sub(hi, lo), Sub(mx, lo)))
	case *types.Basic:
		s := b.T
		lo := opt(x.Low, IntLit(0))
		hi := opt(x.High, strLen(s))
		e.assert(st, "slice", And(Le(IntLit(0), lo), Le(lo, hi), Le(hi, strLen(s))), x.Pos(), "string slice bounds in range", "")
		e.set(x, strSub(s, lo, hi))
	case *types.Pointer:
		at := t.Elem().Underlying().(*types.Array)
		n := IntLit(at.Len())
		lo := opt(x.Low, IntLit(0))
		hi := opt(x.High, n)
		mx := opt(x.Max, n)
		e.assert(st, "slice", And(Le(IntLit(0), lo), Le(lo, hi), Le(hi, mx), Le(mx, n)), x.Pos(), "array slice bounds in range", "")
		if b.LP != nil {
			e.unsupported("slicing a non-escaping local array")
		}
		e.set(x, MkSlice(b.T, lo, Sub(hi, lo), Sub(mx, lo)))
	default:
		e.unsupported("Slice on %s", typeKey(x.X.Type()))
	}
}

func (e *FnExec) convert(st *State, x *ssa.Convert) {
	from, to := x.X.Type(), x.Type()
	v := e.term(st, x.X)
	fs, ts := sortOf(from), sortOf(to)
	switch {
	case fs == "Int" && ts == "Int":
		if isTimeTime(from) || isTimeTime(to) {
			e.set(x, v)
			return
		}
		e.set(x, convInt(from, to, v))
	case fs == "Int" && ts == "F64":
		e.set(x, UF("i2f", "F64", v))
	case fs == "F64" && ts == "Int":
		r := UF("f2i", "Int", v)
		e.addFact(st, e.typeFacts(to, r, st))
		e.set(x, r)
	case fs == "F64" && ts == "F64":
		e.set(x, v)
	case fs == StrSort && ts == "Slice":
		// []byte(s): fresh array whose bytes equal the string's
		arr := e.alloc(st)
		n := strLen(v)
		et := to.Underlying().(*types.Slice).Elem()
		class, sort := memClass(et)
		if sortOf(et) == "Int" {
			if b, ok := et.Underlying().(*types.Basic); ok && b.Kind() == types.Uint8 {
				old := e.getMem(st, class, sort)
				nw := Fresh("mb", sort)
				l := BVar("l", "Loc")
				i := App("pix", "Int", PathOf(l))
				sel := func(a *Term) *Term { return App("select", "Int", a, l) }
				e.addFact(st, Forall([]*Term{l}, Ite(Eq(Root(l), Root(arr)), Imp(And(App("(_ is pidx)", "Bool", PathOf(l)), Le(IntLit(0), i), Lt(i, n)), Eq(sel(nw), strAt(v, i))), Eq(sel(nw), sel(old)))))
				e.setMem(st, class, sort, nw)
				// ... and reading those bytes back as a string gives the string again
				e.addFact(st, Eq(UF("bytes2str", StrSort, MkSlice(arr, IntLit(0), n, n), nw), v))
			}
		}
		e.set(x, MkSlice(arr, IntLit(0), n, n))
	case fs == "Slice" && ts == StrSort:
		// a function of the slice header and the current byte memory
		sl := from.Underlying().(*types.Slice)
		cl, so := memClass(sl.Elem())
		r := UF("bytes2str", StrSort, v, e.getMem(st, cl, so))
		e.addFact(st, Eq(strLen(r), SLen(v)))
		e.set(x, r)
	case fs == "Int" && ts == StrSort:
		r := UF("runestr", StrSort, v)
		e.set(x, r)
	case fs == ts:
		e.set(x, v)
	default:
		e.note("conversion %s -> %s abstracted", typeKey(from), typeKey(to))
		e.setFresh(st, x, "convert")
	}
}

func (e *FnExec) typeAssert(st *State, x *ssa.TypeAssert) {
	v := e.term(st, x.X)
	at := x.AssertedType
	if _, isIface := at.Underlying().(*types.Interface); isIface {
		// interface-to-interface: success iff dynamic type implements; abstract as uninterpreted predicate
		ok := UF("implements_"+fmt.Sprint(typeID(at)), "Bool", ITag(v))
		ok = And(Neq(ITag(v), IntLit(0)), ok)
		if x.CommaOk {
			e.vals[x] = Val{Tuple: []Val{{T: Ite(ok, v, nilIface())}, {T: ok}}}
		} else {
			e.assert(st, "assert-type", ok, x.Pos(), "interface conversion", "")
			e.set(x, v)
		}
		return
	}
	ok := Eq(ITag(v), IntLit(int64(typeID(at))))
	un := Unbox(v, sortOf(at))
	e.addFact(st, Imp(ok, e.typeFacts(at, un, st)))
	if x.CommaOk {
		e.vals[x] = Val{Tuple: []Val{{T: Ite(ok, un, zeroOf(at))}, {T: ok}}}
	} else {
		e.assert(st, "assert-type", ok, x.Pos(), "type assertion to "+shortType(typeKey(at)), "")
		e.set(x, un)
	}
}

func (e *FnExec) rangeInit(st *State, x *ssa.Range) {
	switch t := x.X.Type().Underlying().(type) {
	case *types.Map:
		_ = t
		// iterator state: set of keys already visited, kept in a register cell
		e.ncell++
		id := e.ncell
		ks := sortOf(t.Key())
		e.cellType[id] = nil
		e.cellName[id] = "seen"
		e.iterCells[x] = id
		st.cells[id] = ConstArray(arraySort(ks, "Bool"), False)
		e.iterSort[id] = arraySort(ks, "Bool")
		e.set(x, e.term(st, x.X))
	case *types.Basic:
		e.ncell++
		id := e.ncell
		e.cellType[id] = types.Typ[types.Int]
		e.cellName[id] = "strpos"
		e.iterCells[x] = id
		e.iterSort[id] = "Int"
		st.cells[id] = IntLit(0)
		e.set(x, e.term(st, x.X))
	default:
		e.unsupported("range over %s", typeKey(x.X.Type()))
	}
}

func (e *FnExec) next(st *State, x *ssa.Next) {
	rng, ok := x.Iter.(*ssa.Range)
	if !ok {
		e.unsupported("next on non-range iterator")
	}
	id := e.iterCells[rng]
	tup := x.Type().(*types.Tuple)
	if x.IsString {
		s := e.term(st, rng)
		pos := st.cells[id]
		okT := Lt(pos, strLen(s))
		w := UF("utf8width", "Int", s, pos)
		r := UF("utf8rune", "Int", s, pos)
		e.addFact(st, Imp(okT, And(Le(IntLit(1), w), Le(w, IntLit(4)), Le(Add(pos, w), strLen(s)), Le(IntLit(0), r), Le(r, IntLit(0x10FFFF)),
			Imp(Lt(strAt(s, pos), IntLit(128)), And(Eq(w, IntLit(1)), Eq(r, strAt(s, pos)))))))
		st.cells[id] = Ite(okT, Add(pos, w), pos)
		e.vals[x] = Val{Tuple: []Val{{T: okT}, {T: pos}, {T: r}}}
		return
	}
	mt := rng.X.Type().Underlying().(*types.Map)
	m := e.term(st, rng)
	d, ds, vc, vs := mapClasses(mt)
	dom := Select(e.getMem(st, d, ds), m)
	vals := Select(e.getMem(st, vc, vs), m)
	seen := st.cells[id]
	okT := Fresh("more", "Bool")
	k := Fresh("key", sortOf(mt.Key()))
	kb := BVar("k", sortOf(mt.Key()))
	e.addFact(st, Ite(And(okT, Neq(m, NilLoc)),
		And(Select(dom, k), Not(Select(seen, k))),
		And(Not(okT), Forall([]*Term{kb}, Imp(And(Neq(m, NilLoc), App("select", "Bool", dom, kb)), App("select", "Bool", seen, kb))))))
	e.addFact(st, Imp(okT, And(e.typeFacts(mt.Key(), k, st), e.typeFacts(mt.Elem(), Select(vals, k), st))))
	st.cells[id] = Ite(okT, Store(seen, k, True), seen)
	_ = tup
	e.vals[x] = Val{Tuple: []Val{{T: okT}, {T: k}, {T: Select(vals, k)}}}
}

func (e *FnExec) send(st *State, x *ssa.Send) {
	e.checkSendGuard(st, x.Pos())
	e.note("channel send at %s: no effect on modelled state", e.pos(x.Pos()))
}

// checkSendGuard: a contract may state the condition under which the n-th channel send of the
// function (plain or inside a select) may happen: guardcall send#n: <expr>.
func (e *FnExec) checkSendGuard(st *State, pos token.Pos) {
	if e.con == nil || e.con.Guards == nil {
		return
	}
	e.guardN["send"]++
	gk := fmt.Sprintf("send#%d", e.guardN["send"])
	if g, ok := e.con.Guards[gk]; ok {
		env := e.specEnv(st, pos)
		t, err := env.boolExpr(g)
		if err != nil {
			e.errf("%v", err)
			return
		}
		e.assert(st, "guardcall", t, pos, "channel "+gk+" only when "+g.Text, gk)
		e.guardSeen[gk] = true
	}
}

func (e *FnExec) selectStmt(st *State, x *ssa.Select) {
	for _, s := range x.States {
		if s.Dir == types.SendOnly {
			p := s.Pos
			if p == token.NoPos {
				p = x.Pos()
			}
			e.checkSendGuard(st, p)
		}
	}
	e.note("select at %s: nondeterministic choice, received values unconstrained", e.pos(x.Pos()))
	e.setFresh(st, x, "select")
	tv := e.vals[x]
	n := int64(len(x.States))
	lo := int64(0)
	if !x.Blocking {
		lo = -1
	}
	e.addFact(st, And(Le(IntLit(lo), tv.Tuple[0].T), Lt(tv.Tuple[0].T, IntLit(n))))
}
