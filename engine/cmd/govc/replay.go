package main

// Replay of solver counterexamples against the real code (overlay-injected in-package test).

func runReplay(P *Prog, o *Obligation, e *FnExec) (src string, out string, confirmed bool) {
	return "", "no replay harness registered for " + o.Func, false
}
