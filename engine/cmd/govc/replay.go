package main

// Replay of solver counterexamples against the real code: a per-function Go test template
// (/verif/replay/<function>.go.tmpl) is instantiated with the model values of the function's
// inputs and injected into the real package with `go test -overlay` (nothing is written to the
// repository). The test prints REPLAY-VIOLATION when the real code misbehaves on that input.

import (
	"bytes"
	"context"
	"encoding/json"
	"fmt"
	"os"
	"os/exec"
	"path/filepath"
	"regexp"
	"strconv"
	"strings"
	"text/template"
	"time"
)

var smtEsc = regexp.MustCompile(`\\u\{([0-9a-fA-F]+)\}|\\x([0-9a-fA-F]{2})`)

// smtStringValue turns an SMT-LIB string literal into a Go string (bytes).
func smtStringValue(v string) (string, bool) {
	v = strings.TrimSpace(v)
	if len(v) < 2 || v[0] != '"' || v[len(v)-1] != '"' {
		return "", false
	}
	v = strings.ReplaceAll(v[1:len(v)-1], `""`, `"`)
	out := smtEsc.ReplaceAllStringFunc(v, func(m string) string {
		sm := smtEsc.FindStringSubmatch(m)
		h := sm[1]
		if h == "" {
			h = sm[2]
		}
		n, _ := strconv.ParseUint(h, 16, 32)
		if n < 256 {
			return string([]byte{byte(n)})
		}
		return string(rune(n))
	})
	return out, true
}

func smtIntValue(v string) (string, bool) {
	v = strings.TrimSpace(v)
	v = strings.ReplaceAll(v, "(", "")
	v = strings.ReplaceAll(v, ")", "")
	v = strings.ReplaceAll(v, " ", "")
	if _, err := strconv.ParseInt(v, 10, 64); err == nil {
		return v, true
	}
	if _, err := strconv.ParseUint(v, 10, 64); err == nil {
		return v, true
	}
	return "", false
}

func templatePath(verif, fn string) string {
	return filepath.Join(verif, "replay", sanitize(fn)+".go.tmpl")
}

func runReplay(P *Prog, o *Obligation, pkgPath string) (src string, out string, confirmed bool) {
	tp := templatePath(P.verif, o.Func)
	data, err := os.ReadFile(tp)
	entry := ""
	if err != nil {
		// table entries share the table's template
		if i := strings.Index(o.Func, "["); i > 0 && strings.HasSuffix(o.Func, "]") {
			entry = o.Func[i+1 : len(o.Func)-1]
			tp = templatePath(P.verif, o.Func[:i])
			data, err = os.ReadFile(tp)
		}
	}
	if err != nil {
		return "", "no replay template for " + o.Func + " (" + tp + ")", false
	}
	model := o.Model
	missing := []string{}
	funcs := template.FuncMap{
		"int": func(name string, def ...string) string {
			if v, ok := smtIntValue(model[name]); ok {
				return v
			}
			missing = append(missing, name)
			if len(def) > 0 {
				return def[0]
			}
			return "0"
		},
		"str": func(name string) string {
			if v, ok := smtStringValue(model[name]); ok {
				return strconv.Quote(v)
			}
			missing = append(missing, name)
			// abstract (uninterpreted) string values: derive a distinct concrete string per value
			return strconv.Quote("v:" + model[name])
		},
		"bool": func(name string) string {
			if strings.TrimSpace(model[name]) == "true" {
				return "true"
			}
			return "false"
		},
		"has": func(name string) bool { _, ok := model[name]; return ok },
		"typename": func(name string) string {
			// dynamic type of an interface-typed input, "" when nil or unknown
			if v, ok := smtIntValue(model["typeid("+name+")"]); ok {
				id, _ := strconv.Atoi(v)
				if t, ok := typeByID[id]; ok {
					return typeKey(t)
				}
			}
			return ""
		},
		"obligation": func() string { return o.Name },
		"entry":      func() string { return entry },
		"entryfield": func(k int) string {
			f := strings.Split(entry, ",")
			if k < len(f) {
				return f[k]
			}
			return ""
		},
		"kind": func() string { return o.Kind },
	}
	t, err := template.New("replay").Funcs(funcs).Parse(string(data))
	if err != nil {
		return "", "template error: " + err.Error(), false
	}
	var buf bytes.Buffer
	if err := t.Execute(&buf, model); err != nil {
		return "", "template error: " + err.Error(), false
	}
	src = buf.String()
	return runReplaySource(P.repo, P.verif, pkgPath, P.modPath, src)
}

// runReplaySource injects src as an in-package test and runs it.
func runReplaySource(repo, verif, pkgPath, modPath, src string) (string, string, bool) {
	rel := strings.TrimPrefix(strings.TrimPrefix(pkgPath, modPath), "/")
	pkgDir := filepath.Join(repo, rel)
	dir, err := os.MkdirTemp(filepath.Join(verif, "build"), "replay-")
	if err != nil {
		return src, err.Error(), false
	}
	defer os.RemoveAll(dir)
	gen := filepath.Join(dir, "zz_verif_replay_test.go")
	os.WriteFile(gen, []byte(src), 0644)
	ov := map[string]map[string]string{"Replace": {filepath.Join(pkgDir, "zz_verif_replay_test.go"): gen}}
	ovData, _ := json.Marshal(ov)
	ovFile := filepath.Join(dir, "overlay.json")
	os.WriteFile(ovFile, ovData, 0644)
	goBin := os.Getenv("REPO_GO")
	if goBin == "" {
		goBin = "go"
	}
	ctx, cancel := context.WithTimeout(context.Background(), 10*time.Minute)
	defer cancel()
	cmd := exec.CommandContext(ctx, goBin, "test", "-overlay", ovFile, "-vet=off", "-count=1", "-timeout", "120s", "-run", "^TestVerifReplay$", "-v", ".")
	cmd.Dir = pkgDir
	cmd.Env = os.Environ()
	var outb bytes.Buffer
	cmd.Stdout = &outb
	cmd.Stderr = &outb
	cmd.Run()
	out := outb.String()
	if len(out) > 8000 {
		out = out[:8000] + "\n...[truncated]"
	}
	confirmed := strings.Contains(out, "REPLAY-VIOLATION")
	return src, out, confirmed
}

// cmdReplay re-runs the test stored in a replay file against the current tree.
func cmdReplay(argv []string) int {
	repo, verif := "/repo", "/verif"
	var file string
	for i := 0; i < len(argv); i++ {
		switch argv[i] {
		case "-repo":
			i++
			repo = argv[i]
		case "-verif":
			i++
			verif = argv[i]
		default:
			file = argv[i]
		}
	}
	data, err := os.ReadFile(file)
	if err != nil {
		fmt.Println(err)
		return 2
	}
	var rep map[string]interface{}
	if err := json.Unmarshal(data, &rep); err != nil {
		fmt.Println(err)
		return 2
	}
	src, _ := rep["replay_test_source"].(string)
	pkg, _ := rep["package"].(string)
	if src == "" || pkg == "" {
		fmt.Printf("replay file has no test (obligation %v: %v)\n", rep["obligation"], rep["solver_result"])
		fmt.Println(rep["solver_output"])
		return 1
	}
	_, out, confirmed := runReplaySource(repo, verif, pkg, readModulePath(repo), src)
	fmt.Println(out)
	if confirmed {
		fmt.Printf("VIOLATION property=%v replay=%s\n", rep["property"], file)
		return 1
	}
	return 0
}
