package main

import (
	"encoding/json"
	"flag"
	"fmt"
	"go/types"
	"os"
	"path/filepath"
	"runtime"
	"sort"
	"strings"
	"sync"
	"time"

	"golang.org/x/tools/go/ssa"
)

const version = "govc 0.1 (go/ssa naive form -> guarded VCs -> z3/cvc5)"

type fnReport struct {
	Key         string   `json:"function"`
	Pos         string   `json:"position"`
	Obligations int      `json:"obligations"`
	Discharged  int      `json:"discharged"`
	Ledger      []string `json:"abstraction_ledger,omitempty"`
	PreSat      string   `json:"requires_satisfiable"`
	Returns     []string `json:"return_reachability,omitempty"`
	Trusted     bool     `json:"trusted,omitempty"`
}

type oblReport struct {
	Name   string `json:"name"`
	Kind   string `json:"kind"`
	Result string `json:"result"`
	Solver string `json:"solver"`
	Ms     int64  `json:"ms"`
	Clause string `json:"clause,omitempty"`
	Pos    string `json:"pos,omitempty"`
}

func hasProp(props []string, p string) bool {
	for _, x := range props {
		if x == p {
			return true
		}
	}
	return false
}

func main() {
	if len(os.Args) > 1 && os.Args[1] == "-version" {
		fmt.Println(version)
		return
	}
	if len(os.Args) < 2 {
		fmt.Fprintln(os.Stderr, "usage: govc check|dump ...")
		os.Exit(2)
	}
	switch os.Args[1] {
	case "check":
		os.Exit(cmdCheck(os.Args[2:]))
	case "replay":
		os.Exit(cmdReplay(os.Args[2:]))
	default:
		fmt.Fprintln(os.Stderr, "unknown command", os.Args[1])
		os.Exit(2)
	}
}

type knownFinding struct {
	Kind, Prop, Obligation, What, Raw string
}

func loadKnown(file string) []knownFinding {
	data, err := os.ReadFile(file)
	if err != nil {
		return nil
	}
	var out []knownFinding
	for _, l := range strings.Split(string(data), "\n") {
		l = strings.TrimSpace(l)
		if l == "" || strings.HasPrefix(l, "#") {
			continue
		}
		kf := knownFinding{Raw: l}
		switch {
		case strings.HasPrefix(l, "finding:"):
			kf.Kind = "finding"
		case strings.HasPrefix(l, "fixed:"):
			kf.Kind = "fixed"
		default:
			continue
		}
		for _, f := range strings.Fields(l) {
			if strings.HasPrefix(f, "property=") {
				kf.Prop = f[len("property="):]
			}
			if strings.HasPrefix(f, "obligation=") {
				kf.Obligation = f[len("obligation="):]
			}
		}
		if i := strings.Index(l, "what="); i >= 0 {
			kf.What = l[i+len("what="):]
		}
		out = append(out, kf)
	}
	return out
}

func cmdCheck(argv []string) int {
	fs := flag.NewFlagSet("check", flag.ExitOnError)
	prop := fs.String("prop", "", "property id")
	tier := fs.String("tier", "quick", "quick|thorough")
	repo := fs.String("repo", "/repo", "repository root")
	verif := fs.String("verif", "/verif", "verif root")
	only := fs.String("func", "", "only this function key (debug)")
	verbose := fs.Bool("v", false, "verbose")
	keep := fs.Bool("keep", false, "keep SMT files")
	seed := fs.Int("seed", 0, "seed")
	noEvidence := fs.Bool("no-evidence", false, "do not write evidence")
	fs.Parse(argv)
	start := time.Now()
	resetGlobals(false)
	if *prop == "" {
		fmt.Fprintln(os.Stderr, "need -prop")
		return 2
	}
	var err error
	workDir, err = os.MkdirTemp(filepath.Join(*verif, "build"), "work-"+*prop+"-")
	if err != nil {
		os.MkdirAll(filepath.Join(*verif, "build"), 0755)
		workDir, err = os.MkdirTemp(filepath.Join(*verif, "build"), "work-"+*prop+"-")
		if err != nil {
			fmt.Fprintln(os.Stderr, err)
			return 2
		}
	}
	if !*keep {
		defer os.RemoveAll(workDir)
	}
	modPath := readModulePath(*repo)
	cs, err := LoadContracts(*repo, filepath.Join(*verif, "prelude"), pkgPathOfDir(*repo, modPath))
	if err != nil {
		fmt.Printf("UNDECIDED property=%s reason=contract files: %v\n", *prop, err)
		return 2
	}
	// functions and packages for this property
	var keys []string
	pkgSet := map[string]bool{}
	for k, c := range cs.Funcs {
		if hasProp(c.Props, *prop) && !c.Trusted && !c.NoVerify {
			if *only != "" && !strings.Contains(k, *only) {
				continue
			}
			keys = append(keys, k)
			pkgSet[c.PkgPath] = true
		}
	}
	sort.Strings(keys)
	var lemmas []*Lemma
	for _, l := range cs.Lemmas {
		if hasProp(l.Props, *prop) && (*only == "" || strings.Contains(l.Name, *only)) {
			lemmas = append(lemmas, l)
			pkgSet[l.PkgPath] = true
		}
	}
	nSweeps := 0
	for _, sw := range cs.Sweeps {
		if hasProp(sw.Con.Props, *prop) {
			pkgSet[sw.PkgPath] = true
			nSweeps++
		}
	}
	if len(keys) == 0 && len(lemmas) == 0 && nSweeps == 0 {
		fmt.Printf("UNDECIDED property=%s reason=no contracts carry this property\n", *prop)
		return 2
	}
	var pkgPaths []string
	for p := range pkgSet {
		if p != "" {
			pkgPaths = append(pkgPaths, p)
		}
	}
	sort.Strings(pkgPaths)
	P, err := LoadProg(*repo, *verif, pkgPaths, cs)
	if err != nil {
		fmt.Printf("UNDECIDED property=%s reason=load: %v\n", *prop, strings.ReplaceAll(err.Error(), "\n", " | "))
		return 2
	}
	// functions brought under contract by a sweep are known only now
	for k, c := range cs.Funcs {
		if c.Swept && hasProp(c.Props, *prop) && (*only == "" || strings.Contains(k, *only)) {
			keys = append(keys, k)
		}
	}
	sort.Strings(keys)
	loadS := time.Since(start).Seconds()

	var all []*Obligation
	var freps []*fnReport
	var engineErrs []string
	assumed := map[string]int{}
	execs := map[string]*FnExec{}
	ctxs := map[string]*savedCtx{}
	for _, k := range keys {
		fn := P.fnByKey[k]
		if fn == nil || len(fn.Blocks) == 0 {
			engineErrs = append(engineErrs, fmt.Sprintf("function under contract not found in the current tree: %s", k))
			continue
		}
		resetGlobals(cs.Funcs[k].Opts["strings"] == "seq")
		e := newFnExec(P, fn, k, cs.Funcs[k])
		e.run()
		execs[e.key] = e
		for _, er := range e.errs {
			engineErrs = append(engineErrs, k+": "+er)
		}
		// contract loops must exist
		for ord := range e.con.Loops {
			found := false
			for _, li := range e.loops {
				if li.ordinal == ord {
					found = true
				}
			}
			if !found {
				engineErrs = append(engineErrs, fmt.Sprintf("%s: contract names loop %d but the function has %d loops", k, ord, len(e.loops)))
			}
		}
		for gk := range e.con.Guards {
			if !e.guardSeen[gk] {
				engineErrs = append(engineErrs, fmt.Sprintf("%s: guardcall %s names a call that does not exist", k, gk))
			}
		}
		fr := &fnReport{Key: k, Pos: e.pos(fn.Pos()).String(), Ledger: e.ledger}
		freps = append(freps, fr)
		// vacuity: requires must be satisfiable
		pre := &Obligation{Name: k + ":requires-sat", Kind: "vacuity", Func: k, Goal: False, Guard: True, NFacts: e.entryFacts, exec: e, Cover: true}
		all = append(all, pre)
		all = append(all, e.obls...)
		pre.Script = pre.script(false)
		n := 0
		if v := e.con.Opts["split"]; v != "" {
			fmt.Sscan(v, &n)
		}
		for _, o := range e.obls {
			if o.Result == "trivial" {
				continue
			}
			o.split = n
			if o.Cover {
				o.prepare(n)
			} else {
				o.prepareA()
			}
		}
		ctxs[e.key] = saveGlobals()
		for a, n := range e.assumed {
			assumed[a] += n
		}
		if want := e.con.Opts["expect"]; want != "" {
			var n int
			fmt.Sscan(want, &n)
			if len(e.obls) < n {
				engineErrs = append(engineErrs, fmt.Sprintf("%s: only %d obligations generated, contract expects >= %d (vacuity guard)", k, len(e.obls), n))
			}
		}
	}
	// lemmas
	for _, l := range lemmas {
		resetGlobals(l.Opts["strings"] == "seq")
		o, err := lemmaObligation(P, l)
		if err != nil {
			engineErrs = append(engineErrs, fmt.Sprintf("lemma %s: %v", l.Name, err))
			continue
		}
		o.prepareA()
		ctxs[o.Func] = saveGlobals()
		all = append(all, o)
	}
	genS := time.Since(start).Seconds() - loadS

	// solve: stage A (no instances) for everything, then stage B (goal-directed instances) and the
	// full query (all instances, case split, solver race) for what is left. Term construction is
	// single-threaded, so each stage is prepared here and solved in the background.
	sem := make(chan struct{}, max(2, runtime.NumCPU()*2/3))
	runStage := func(obls []*Obligation, f func(i int, o *Obligation)) {
		var wg sync.WaitGroup
		for i, o := range obls {
			wg.Add(1)
			sem <- struct{}{}
			go func(i int, o *Obligation) {
				defer wg.Done()
				defer func() { <-sem }()
				f(i, o)
			}(i, o)
		}
		wg.Wait()
	}
	idxOf := map[*Obligation]int{}
	for i, o := range all {
		idxOf[o] = i
	}
	var stageA, direct []*Obligation
	for _, o := range all {
		switch {
		case o.Result == "trivial":
			o.Solver = "simplifier"
		case o.ScriptA != "":
			stageA = append(stageA, o)
		default:
			direct = append(direct, o)
		}
	}
	var directWG sync.WaitGroup
	directWG.Add(1)
	go func() {
		defer directWG.Done()
		runStage(direct, func(_ int, o *Obligation) { o.solve(*tier, idxOf[o]) })
	}()
	runStage(stageA, func(_ int, o *Obligation) { o.solveStage("A", *tier, idxOf[o]) })
	var stageB []*Obligation
	t1 := time.Now()
	for _, o := range stageA {
		if o.Result != "unsat" {
			if c := ctxs[o.Func]; c != nil {
				restoreGlobals(c)
			}
			o.prepareB()
			stageB = append(stageB, o)
		}
	}
	genS += time.Since(t1).Seconds()
	runStage(stageB, func(_ int, o *Obligation) { o.solveStage("B", *tier, idxOf[o]) })
	var stageC []*Obligation
	t1 = time.Now()
	// prepare and launch the full queries one by one (preparation is the serial part)
	var cWG sync.WaitGroup
	for _, o := range stageB {
		if o.Result == "unsat" {
			continue
		}
		if c := ctxs[o.Func]; c != nil {
			restoreGlobals(c)
		}
		o.prepare(o.split)
		stageC = append(stageC, o)
		cWG.Add(1)
		sem <- struct{}{}
		go func(o *Obligation) {
			defer cWG.Done()
			defer func() { <-sem }()
			o.solve(*tier, idxOf[o])
		}(o)
	}
	genS += time.Since(t1).Seconds()
	cWG.Wait()
	directWG.Wait()

	// classify
	known := loadKnown(filepath.Join(*verif, "known_findings.txt"))
	var failed, knownHit []*Obligation
	nObl, nDis := 0, 0
	var solverMs int64
	bySolver := map[string]int{}
	var oreps []oblReport
	frByKey := map[string]*fnReport{}
	shortToFull := map[string]string{}
	for _, fr := range freps {
		frByKey[fr.Key] = fr
		shortToFull[shortKey(fr.Key)] = fr.Key
	}
	var vacuous []string
	loopReach := map[string][]string{}
	for _, o := range all {
		solverMs += o.Ms
		if o.Kind == "vacuity" {
			fr := frByKey[o.Func]
			switch o.Result {
			case "unsat-cover-ok":
				fr.PreSat = "sat (" + o.Solver + ")"
			case "cover-unreachable":
				fr.PreSat = "UNSAT"
				engineErrs = append(engineErrs, fmt.Sprintf("%s: requires/type facts are contradictory (vacuous contract)", o.Func))
			default:
				fr.PreSat = "undecided (" + o.Result + ")"
			}
			continue
		}
		if o.Kind == "vacuity-loop" {
			// sat: an iteration can complete (good); unsat: the invariants assumed at the loop head
			// contradict each other or the loop condition -- everything inside would be vacuously true
			lk := o.Func + "|" + o.Name[strings.LastIndex(o.Name, ":")+1:]
			loopReach[lk] = append(loopReach[lk], o.Result)
			continue
		}
		if o.Kind == "vacuity-return" {
			// sat: reachable (good); unsat: contradictory assumptions or dead code; other: undecided
			if o.Result == "cover-unreachable" {
				vacuous = append(vacuous, o.Name)
			}
			if fr := frByKey[shortToFull[o.Func]]; fr != nil {
				fr.Returns = append(fr.Returns, o.Name+": "+o.Result)
			}
			continue
		}
		nObl++
		ok := o.Result == "unsat" || o.Result == "trivial" || o.Result == "unsat-cover-ok"
		if fr := frByKey[shortToFull[o.Func]]; fr != nil {
			fr.Obligations++
			if ok {
				fr.Discharged++
			}
		}
		bySolver[o.Solver]++
		oreps = append(oreps, oblReport{Name: o.Name, Kind: o.Kind, Result: o.Result, Solver: o.Solver, Ms: o.Ms, Clause: o.Clause, Pos: o.Pos.String()})
		if ok {
			nDis++
			continue
		}
		if o.Result == "solver-disagreement" {
			engineErrs = append(engineErrs, fmt.Sprintf("%s: solvers disagree (%s)", o.Name, o.RawOut))
			continue
		}
		isKnown := false
		for _, kf := range known {
			if kf.Kind == "finding" && kf.Prop == *prop && kf.Obligation == o.Name {
				isKnown = true
				fmt.Printf("KNOWN-FINDING: property=%s %s [%s]\n", *prop, kf.What, o.Name)
			}
		}
		if isKnown {
			knownHit = append(knownHit, o)
		} else {
			failed = append(failed, o)
		}
	}
	if *verbose {
		for _, o := range all {
			fmt.Printf("  %-14s %-8s %6dms %s\n", o.Result, o.Solver, o.Ms, o.Name)
		}
	}
	exit := 0
	// violations
	replayDir := filepath.Join(*verif, "replays", *prop)
	for _, o := range failed {
		os.MkdirAll(replayDir, 0755)
		path := filepath.Join(replayDir, sanitize(o.Name)+".json")
		if c := ctxs[o.Func]; c != nil {
			restoreGlobals(c)
		}
		confirmed := writeReplay(P, o, *prop, path, execs[o.Func])
		suffix := ""
		if !confirmed {
			suffix = " no-failing-input-found"
		}
		fmt.Printf("VIOLATION property=%s replay=%s obligation=%s%s\n", *prop, path, o.Name, suffix)
		exit = 1
	}
	// a function none of whose returns is reachable has contradictory assumptions
	byFn := map[string][2]int{}
	for _, o := range all {
		if o.Kind == "vacuity-return" {
			c := byFn[o.Func]
			c[0]++
			if o.Result == "cover-unreachable" {
				c[1]++
			}
			byFn[o.Func] = c
		}
	}
	for fn, c := range byFn {
		if c[0] > 0 && c[0] == c[1] {
			engineErrs = append(engineErrs, fmt.Sprintf("%s: no return is reachable under the collected assumptions (vacuous proof)", fn))
		}
	}
	_ = vacuous
	for k, rs := range loopReach {
		allUnreach := true
		for _, r := range rs {
			if r != "cover-unreachable" {
				allUnreach = false
			}
		}
		if allUnreach {
			f := strings.SplitN(k, "|", 2)
			engineErrs = append(engineErrs, fmt.Sprintf("%s: no iteration of %s can complete under the assumed invariants (vacuous loop proof)", f[0], f[1]))
		}
	}
	for _, er := range engineErrs {
		fmt.Printf("UNDECIDED property=%s reason=%s\n", *prop, er)
		if exit == 0 {
			exit = 2
		}
	}
	wall := time.Since(start).Seconds()
	if !*noEvidence {
		writeEvidence(*verif, *prop, *tier, *seed, wall, loadS, genS, float64(solverMs)/1000, nObl, nDis, freps, oreps, assumed, bySolver, cs, keys, lemmas, failed, knownHit, engineErrs)
	}
	fmt.Printf("property=%s tier=%s functions=%d lemmas=%d obligations=%d discharged=%d known=%d failed=%d errors=%d wall=%.1fs (load %.1fs, vcgen %.1fs, solver cpu %.1fs)\n",
		*prop, *tier, len(keys), len(lemmas), nObl, nDis, len(knownHit), len(failed), len(engineErrs), wall, loadS, genS, float64(solverMs)/1000)
	return exit
}

func sanitize(s string) string {
	var sb strings.Builder
	for _, r := range s {
		if r >= 'a' && r <= 'z' || r >= 'A' && r <= 'Z' || r >= '0' && r <= '9' || r == '.' || r == '-' || r == '_' {
			sb.WriteRune(r)
		} else {
			sb.WriteByte('_')
		}
	}
	out := sb.String()
	out = strings.ReplaceAll(out, "github.com_influxdata_kapacitor", "k")
	return out
}

func newFnExec(P *Prog, fn *ssa.Function, key string, con *Contract) *FnExec {
	return &FnExec{P: P, fn: fn, key: shortKey(key), con: con, vals: map[ssa.Value]Val{}, cellOf: map[ssa.Value]int{},
		cellType: map[int]types.Type{}, cellName: map[int]string{}, in: map[*ssa.BasicBlock]*State{}, out: map[*ssa.BasicBlock]*State{},
		edge: map[[2]int]*Term{}, loops: map[*ssa.BasicBlock]*loopInfo{}, kindN: map[string]int{}, classes: map[string]string{},
		varAddr: map[types.Object][]ssa.Value{}, nonNil: map[int]*ssa.BasicBlock{}, params: map[string]Val{}, paramTy: map[string]types.Type{},
		ghost: map[string]*Term{}, assumed: map[string]int{}, iterCells: map[*ssa.Range]int{}, iterSort: map[int]string{}, closures: map[*Term]*ssa.MakeClosure{}, wfDone: map[string]bool{}, epochCtr: map[int]*Term{}, guardN: map[string]int{}, guardSeen: map[string]bool{}, callResults: map[string]specVar{}, callArgs: map[string][]specVar{}, calledCell: map[string]int{}}
}

func shortKey(k string) string {
	k = strings.ReplaceAll(k, "github.com/influxdata/kapacitor/", "")
	k = strings.ReplaceAll(k, "github.com/influxdata/kapacitor.", "kapacitor.")
	return k
}

func lemmaObligation(P *Prog, l *Lemma) (*Obligation, error) {
	e := newFnExec(P, nil, "lemma:"+l.Name, nil)
	st := &State{reach: True, cells: map[int]*Term{}, mem: map[string]*Term{}, ctr: Var("ctr@0", "Int")}
	e.entry = st
	env := &SpecEnv{pureIdx: -1, e: e, cur: st, old: st, vars: map[string]specVar{}, pkg: P.typesPkg(l.PkgPath)}
	g, err := env.boolExpr(l.Body)
	if err != nil {
		return nil, err
	}
	// name the outermost universally quantified variables: they are the counterexample
	var inputs []NamedTerm
	for g.Op == "forall" {
		m := map[*Term]*Term{}
		for _, b := range g.Binds {
			nm := b.Name
			if i := strings.Index(nm, "!"); i > 0 {
				nm = nm[:i]
			}
			c := Fresh("lm_"+nm, b.Sort)
			m[b] = c
			inputs = append(inputs, NamedTerm{nm, c, b.Sort})
		}
		g = Subst(g.Args[0], m)
	}
	return &Obligation{Name: "lemma:" + l.Name, Kind: "lemma", Func: "lemma:" + l.Name, Goal: skolemize(g), Guard: True, NFacts: len(e.facts), exec: e, Clause: l.Body.Text, Lemma: true, Inputs: inputs, PkgPath: l.PkgPath}, nil
}

func writeEvidence(verif, prop, tier string, seed int, wall, loadS, genS, solverS float64, nObl, nDis int, freps []*fnReport, oreps []oblReport,
	assumed map[string]int, bySolver map[string]int, cs *ContractSet, keys []string, lemmas []*Lemma, failed, knownHit []*Obligation, engineErrs []string) {
	var samples []interface{}
	for i, o := range oreps {
		if i%max(1, len(oreps)/8) == 0 && len(samples) < 10 {
			samples = append(samples, o)
		}
	}
	var trusted []string
	var asm []string
	for _, k := range sortedKeys(assumed) {
		if strings.HasPrefix(k, "trusted contract: ") {
			trusted = append(trusted, fmt.Sprintf("%s (used %d times)", k, assumed[k]))
		} else {
			asm = append(asm, fmt.Sprintf("%s (x%d)", k, assumed[k]))
		}
	}
	trusted = append(trusted, "SMT solvers z3 4.8.12 / z3 5.1.0 / cvc5 1.0 (answers taken as given)", "go/ssa (x/tools v0.50.0) lowering of the Go source", "govc VC generator (validated by the must-fail corpus in selftest/)")
	asm = append(asm,
		"machine integers: values carry their Go type range, + - * are mathematical (no wrap-around) unless the contract says otherwise; conversions between integer types wrap exactly",
		"float64 arithmetic and comparisons are uninterpreted functions (shape of the formula is pinned, rounding is not)",
		"time.Time is an integer count of nanoseconds (monotonic clock and location dropped)",
		"strings are sequences of code points < 256 (bytes)",
		"pointer receivers are non-nil (asserted at every contracted call site)",
		"goroutines, channel contents and select readiness are not modelled; lock acquisition has no effect on data",
		"make/new of slices: element contents unconstrained rather than zero",
		"existing slices hold at most 2^46 elements; make() beyond 2^48 elements is a panic obligation, smaller allocations are assumed to succeed (memory exhaustion is not modelled)")
	var fnames []string
	for _, f := range freps {
		fnames = append(fnames, f.Key)
	}
	var lnames []string
	for _, l := range lemmas {
		lnames = append(lnames, l.Name)
	}
	var kf, fl []string
	for _, o := range knownHit {
		kf = append(kf, o.Name)
	}
	for _, o := range failed {
		fl = append(fl, o.Name+" ("+o.Result+")")
	}
	ev := map[string]interface{}{
		"property_id": prop,
		"tier":        tier,
		"seed":        seed,
		"level":       "proof",
		"wall_s":      wall,
		"violations":  len(failed),
		"coverage": map[string]interface{}{
			"obligations":               nObl - len(knownHit),
			"discharged":                nDis,
			"known_finding_obligations": len(knownHit),
			"checker_cmd":               fmt.Sprintf("./check %s %s", tier, prop),
			"trusted_base":              trusted,
			"samples":                   samples,
			"functions_under_contract":  freps,
			"lemmas":                    lnames,
			"per_obligation":            oreps,
			"by_backend":                bySolver,
			"solver_time_s":             solverS,
			"load_s":                    loadS,
			"vcgen_s":                   genS,
			"known_findings":            kf,
			"failed":                    fl,
			"engine_errors":             engineErrs,
			"contract_files":            cs.Files,
		},
		"assumptions": asm,
	}
	os.MkdirAll(filepath.Join(verif, "evidence"), 0755)
	data, _ := json.MarshalIndent(ev, "", " ")
	os.WriteFile(filepath.Join(verif, "evidence", prop+".json"), data, 0644)
}

func writeReplay(P *Prog, o *Obligation, prop, path string, e *FnExec) bool {
	rep := map[string]interface{}{
		"property":      prop,
		"obligation":    o.Name,
		"kind":          o.Kind,
		"clause":        o.Clause,
		"position":      o.Pos.String(),
		"solver":        o.Solver,
		"solver_result": o.Result,
		"model":         o.Model,
		"solver_output": o.RawOut,
		"confirmed":     false,
	}
	confirmed := false
	pkgPath := o.PkgPath
	if e != nil && e.fn != nil && e.fn.Pkg != nil {
		pkgPath = e.fn.Pkg.Pkg.Path()
	}
	// Without a model (unknown/timeout) a template may still be run if it declares itself a fixed
	// history that needs no model values ("replay: fixed history" in its text): the obligation
	// names the broken invariant, the template is a concrete history that breaks it on the real code.
	fixed := false
	if o.Model == nil && pkgPath != "" {
		if data, err := os.ReadFile(templatePath(P.verif, o.Func)); err == nil && strings.Contains(string(data), "replay: fixed history") {
			fixed = true
			o.Model = map[string]string{}
			rep["replay_kind"] = "fixed history (the solver gave no model)"
		}
	}
	if (o.Model != nil || fixed) && pkgPath != "" {
		src, out, ok := runReplay(P, o, pkgPath)
		rep["replay_test_source"] = src
		rep["replay_output"] = out
		rep["package"] = pkgPath
		rep["confirmed"] = ok
		confirmed = ok
	}
	data, _ := json.MarshalIndent(rep, "", " ")
	os.WriteFile(path, data, 0644)
	return confirmed
}
