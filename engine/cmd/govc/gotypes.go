package main

// Go type -> SMT sort mapping, struct datatypes, zero values, integer ranges, memory classes.

import (
	"fmt"
	"go/types"
	"math/big"
	"strings"

	"golang.org/x/tools/go/ssa"
)

const preludeDecls = `(declare-datatypes ((Path 0)) (((pnil) (pfld (ppar Path) (pfid Int)) (pidx (ppar2 Path) (pix Int)))))
(declare-datatypes ((Loc 0)) (((mkloc (root Int) (path Path)))))
(declare-datatypes ((Slice 0)) (((mkslice (sarr Loc) (soff Int) (slen Int) (scap Int)))))
(declare-sort Iface 0)
(declare-fun itag (Iface) Int)
(declare-sort F64 0)
(declare-sort Opaque 0)`

var (
	PNil    *Term
	NilLoc  *Term
	NilSlc  *Term
	NilFace *Term
)

// resetGlobals starts a fresh term context: every function (and lemma) is translated and
// printed independently of the others.
func resetGlobals(seqStrings bool) {
	TC = NewTermCtx()
	True = TC.intern(&Term{Op: "bool", Name: "true", Sort: "Bool"})
	False = TC.intern(&Term{Op: "bool", Name: "false", Sort: "Bool"})
	TC.sortDecls = append(TC.sortDecls, preludeDecls)
	PNil = App("pnil", "Path")
	NilLoc = App("mkloc", "Loc", IntLit(0), PNil)
	NilSlc = App("mkslice", "Slice", NilLoc, IntLit(0), IntLit(0), IntLit(0))
	NilFace = nil
	axiomsBySym = map[string][]*Term{}
	structByKey = map[string]*structInfo{}
	nextFid = 1
	fidName = map[int]string{}
	typeIDs = map[string]int{}
	typeByID = map[int]types.Type{}
	declaredSorts = map[string]bool{}
	f64Consts = map[string]*Term{}
	opaqueZero = map[string]*Term{}
	globalIDs = map[*ssa.Global]int64{}
	funcIDs = map[*ssa.Function]int64{}
	recSpecDone = map[string]bool{}
	recDefs = map[string]*recDef{}
	recPass1 = map[string]bool{}
	recSpecMem = map[string][][2]string{}
	bitAxioms = map[int]*Term{}
	symCache = map[int]map[string]bool{}
	ufLits = map[string]*Term{}
	patCache = map[[2]int][]idxPattern{}
	ufPosCache = map[[2]int][]string{}
	boundCache = map[[2]int][]*Term{}
	selSortCache = map[[2]int]map[string]bool{}
	selArrCache = map[[2]int][]*Term{}
	strFunsDeclared = false
	selectorOf = map[string]selInfo{"root": {"mkloc", 0}, "path": {"mkloc", 1}, "sarr": {"mkslice", 0}, "soff": {"mkslice", 1},
		"slen": {"mkslice", 2}, "scap": {"mkslice", 3}, "ppar": {"pfld", 0}, "pfid": {"pfld", 1}, "ppar2": {"pidx", 0}, "pix": {"pidx", 1}}
	setStringMode(seqStrings)
}

// savedCtx is a snapshot of the per-function term context: the staged solving pipeline comes
// back to a function's obligations (to instantiate more) after other functions have been translated.
type savedCtx struct {
	TC                            *TermCtx
	True, False                   *Term
	PNil, NilLoc, NilSlc, NilFace *Term
	axiomsBySym                   map[string][]*Term
	structByKey                   map[string]*structInfo
	nextFid                       int
	fidName                       map[int]string
	typeIDs                       map[string]int
	typeByID                      map[int]types.Type
	declaredSorts                 map[string]bool
	f64Consts                     map[string]*Term
	opaqueZero                    map[string]*Term
	globalIDs                     map[*ssa.Global]int64
	funcIDs                       map[*ssa.Function]int64
	recSpecDone                   map[string]bool
	recDefs                       map[string]*recDef
	recPass1                      map[string]bool
	recSpecMem                    map[string][][2]string
	bitAxioms                     map[int]*Term
	symCache                      map[int]map[string]bool
	ufLits                        map[string]*Term
	patCache                      map[[2]int][]idxPattern
	ufPosCache                    map[[2]int][]string
	boundCache                    map[[2]int][]*Term
	selSortCache                  map[[2]int]map[string]bool
	selArrCache                   map[[2]int][]*Term
	strFunsDeclared               bool
	selectorOf                    map[string]selInfo
	StrSort                       string
}

func saveGlobals() *savedCtx {
	return &savedCtx{TC, True, False, PNil, NilLoc, NilSlc, NilFace, axiomsBySym, structByKey, nextFid, fidName, typeIDs, typeByID,
		declaredSorts, f64Consts, opaqueZero, globalIDs, funcIDs, recSpecDone, recDefs, recPass1, recSpecMem, bitAxioms, symCache,
		ufLits, patCache, ufPosCache, boundCache, selSortCache, selArrCache, strFunsDeclared, selectorOf, StrSort}
}

func restoreGlobals(c *savedCtx) {
	TC, True, False, PNil, NilLoc, NilSlc, NilFace = c.TC, c.True, c.False, c.PNil, c.NilLoc, c.NilSlc, c.NilFace
	axiomsBySym, structByKey, nextFid, fidName, typeIDs, typeByID = c.axiomsBySym, c.structByKey, c.nextFid, c.fidName, c.typeIDs, c.typeByID
	declaredSorts, f64Consts, opaqueZero, globalIDs, funcIDs = c.declaredSorts, c.f64Consts, c.opaqueZero, c.globalIDs, c.funcIDs
	recSpecDone, recDefs, recPass1, recSpecMem, bitAxioms, symCache = c.recSpecDone, c.recDefs, c.recPass1, c.recSpecMem, c.bitAxioms, c.symCache
	ufLits, patCache, ufPosCache, boundCache, selSortCache = c.ufLits, c.patCache, c.ufPosCache, c.boundCache, c.selSortCache
	strFunsDeclared, selectorOf, StrSort = c.strFunsDeclared, c.selectorOf, c.StrSort
	selArrCache = c.selArrCache
}

type axiom struct {
	t *Term
}

var axiomsBySym = map[string][]*Term{}

func AddAxiom(sym string, t *Term) {
	sym = smtSym(sym)
	for _, o := range axiomsBySym[sym] {
		if o == t {
			return
		}
	}
	axiomsBySym[sym] = append(axiomsBySym[sym], t)
}

func nilIface() *Term {
	if NilFace == nil {
		NilFace = Var("niliface", "Iface")
		AddAxiom("niliface", Eq(App("itag", "Int", NilFace), IntLit(0)))
	}
	return NilFace
}

func ITag(i *Term) *Term {
	if i == nilIface() {
		return IntLit(0)
	}
	if i.Op == "app" && strings.HasPrefix(i.Name, "box_") {
		// box_<sort>_<typeid>
		if k := strings.LastIndex(i.Name, "_"); k >= 0 {
			var id int64
			if _, err := fmt.Sscan(i.Name[k+1:], &id); err == nil {
				return IntLit(id)
			}
		}
	}
	if i.Op == "app" && i.Name == "ite" {
		return Ite(i.Args[0], ITag(i.Args[1]), ITag(i.Args[2]))
	}
	return App("itag", "Int", i)
}

// Unbox extracts the dynamic value of an interface as the given sort.
func Unbox(i *Term, sort string) *Term {
	if i.Op == "app" && strings.HasPrefix(i.Name, "box_"+sort+"_") {
		return i.Args[0]
	}
	if i.Op == "app" && i.Name == "ite" {
		return Ite(i.Args[0], Unbox(i.Args[1], sort), Unbox(i.Args[2], sort))
	}
	return UF("unbox_"+sort, sort, i)
}

// ---- locations ----

func MkLoc(root, path *Term) *Term { return App("mkloc", "Loc", root, path) }
func Root(l *Term) *Term {
	if l.Op == "app" && l.Name == "mkloc" {
		return l.Args[0]
	}
	if l.Op == "app" && l.Name == "ite" {
		return Ite(l.Args[0], Root(l.Args[1]), Root(l.Args[2]))
	}
	return App("root", "Int", l)
}
func PathOf(l *Term) *Term {
	if l.Op == "app" && l.Name == "mkloc" {
		return l.Args[1]
	}
	if l.Op == "app" && l.Name == "ite" {
		return Ite(l.Args[0], PathOf(l.Args[1]), PathOf(l.Args[2]))
	}
	return App("path", "Path", l)
}
func FldLoc(l *Term, fid int) *Term {
	if l.Op == "app" && l.Name == "ite" {
		return Ite(l.Args[0], FldLoc(l.Args[1], fid), FldLoc(l.Args[2], fid))
	}
	return MkLoc(Root(l), App("pfld", "Path", PathOf(l), IntLit(int64(fid))))
}
func IdxLoc(l *Term, i *Term) *Term {
	if l.Op == "app" && l.Name == "ite" {
		return Ite(l.Args[0], IdxLoc(l.Args[1], i), IdxLoc(l.Args[2], i))
	}
	return MkLoc(Root(l), App("pidx", "Path", PathOf(l), i))
}

// ---- slices ----

func MkSlice(arr, off, ln, cp *Term) *Term { return App("mkslice", "Slice", arr, off, ln, cp) }
func sliceSel(name, sort string, idx int, s *Term) *Term {
	if s.Op == "app" && s.Name == "mkslice" {
		return s.Args[idx]
	}
	if s.Op == "app" && s.Name == "ite" {
		return Ite(s.Args[0], sliceSel(name, sort, idx, s.Args[1]), sliceSel(name, sort, idx, s.Args[2]))
	}
	return App(name, sort, s)
}
func SArr(s *Term) *Term { return sliceSel("sarr", "Loc", 0, s) }
func SOff(s *Term) *Term { return sliceSel("soff", "Int", 1, s) }
func SLen(s *Term) *Term { return sliceSel("slen", "Int", 2, s) }
func SCap(s *Term) *Term { return sliceSel("scap", "Int", 3, s) }

// ---- struct datatypes ----

type structInfo struct {
	name   string
	typ    *types.Struct
	fields []string // selector names
	sorts  []string
	fids   []int
}

var (
	structByKey = map[string]*structInfo{}
	nextFid     = 1
	fidName     = map[int]string{}
	typeIDs     = map[string]int{}
	typeByID    = map[int]types.Type{}
)

func typeKey(t types.Type) string {
	return types.TypeString(t, nil)
}

func isTimeTime(t types.Type) bool {
	if n, ok := types.Unalias(t).(*types.Named); ok {
		o := n.Obj()
		return o.Pkg() != nil && o.Pkg().Path() == "time" && o.Name() == "Time"
	}
	return false
}

func structOf(t types.Type) *structInfo {
	st, ok := t.Underlying().(*types.Struct)
	if !ok || isTimeTime(t) {
		return nil
	}
	// key by the named type when there is one, so field ids are per declared type
	key := typeKey(t)
	if si, ok := structByKey[key]; ok {
		return si
	}
	si := &structInfo{name: fmt.Sprintf("S%d", len(structByKey)+1), typ: st}
	structByKey[key] = si
	var parts []string
	for i := 0; i < st.NumFields(); i++ {
		f := st.Field(i)
		fs := sortOf(f.Type())
		sel := fmt.Sprintf("%s_f%d", si.name, i)
		si.fields = append(si.fields, sel)
		selectorOf[sel] = selInfo{"mk" + si.name, i}
		si.sorts = append(si.sorts, fs)
		si.fids = append(si.fids, nextFid)
		fidName[nextFid] = shortType(key) + "." + f.Name()
		nextFid++
		parts = append(parts, fmt.Sprintf("(%s %s)", sel, fs))
	}
	decl := fmt.Sprintf("(declare-datatypes ((%s 0)) (((mk%s %s)))) ; %s", si.name, si.name, strings.Join(parts, " "), shortType(key))
	if st.NumFields() == 0 {
		decl = fmt.Sprintf("(declare-datatypes ((%s 0)) (((mk%s)))) ; %s", si.name, si.name, shortType(key))
	}
	TC.sortDecls = append(TC.sortDecls, decl)
	return si
}

func shortType(s string) string {
	s = strings.ReplaceAll(s, "github.com/influxdata/kapacitor/", "")
	s = strings.ReplaceAll(s, "github.com/influxdata/kapacitor.", "")
	if len(s) > 60 {
		s = s[:60] + "..."
	}
	return s
}

func (si *structInfo) Get(t *Term, i int) *Term {
	if t.Op == "app" && t.Name == "mk"+si.name {
		return t.Args[i]
	}
	if t.Op == "app" && t.Name == "ite" {
		return Ite(t.Args[0], si.Get(t.Args[1], i), si.Get(t.Args[2], i))
	}
	return App(si.fields[i], si.sorts[i], t)
}

func (si *structInfo) Set(t *Term, i int, v *Term) *Term {
	args := make([]*Term, len(si.fields))
	for k := range si.fields {
		if k == i {
			args[k] = v
		} else {
			args[k] = si.Get(t, k)
		}
	}
	return App("mk"+si.name, si.name, args...)
}

func (si *structInfo) Mk(args ...*Term) *Term {
	return App("mk"+si.name, si.name, args...)
}

func typeID(t types.Type) int {
	k := typeKey(t)
	if id, ok := typeIDs[k]; ok {
		return id
	}
	id := len(typeIDs) + 1
	typeIDs[k] = id
	typeByID[id] = t
	return id
}

var declaredSorts = map[string]bool{}

func sortOf(t types.Type) string {
	t = types.Unalias(t)
	if isTimeTime(t) {
		return "Int"
	}
	if tp, ok := t.(*types.TypeParam); ok {
		n := "TP_" + tp.Obj().Name()
		if !declaredSorts[n] {
			declaredSorts[n] = true
			TC.sortDecls = append(TC.sortDecls, fmt.Sprintf("(declare-sort %s 0)", n))
		}
		return n
	}
	switch u := t.Underlying().(type) {
	case *types.Basic:
		switch {
		case u.Info()&types.IsBoolean != 0:
			return "Bool"
		case u.Info()&types.IsInteger != 0:
			return "Int"
		case u.Info()&types.IsFloat != 0:
			return "F64"
		case u.Info()&types.IsString != 0:
			return StrSort
		case u.Kind() == types.UnsafePointer:
			return "Loc"
		case u.Kind() == types.UntypedNil:
			return "Loc"
		}
		return "Opaque"
	case *types.Pointer, *types.Map, *types.Chan:
		return "Loc"
	case *types.Slice:
		return "Slice"
	case *types.Signature:
		return "Int"
	case *types.Interface:
		return "Iface"
	case *types.Struct:
		return structOf(t).name
	case *types.Array:
		return arraySort("Int", sortOf(u.Elem()))
	case *types.Tuple:
		return "Opaque"
	}
	return "Opaque"
}

var f64Consts = map[string]*Term{}

func f64Const(text string) *Term {
	if v, ok := f64Consts[text]; ok {
		return v
	}
	name := "f64!" + text
	v := Var(name, "F64")
	for _, o := range f64Consts {
		AddAxiom(name, Neq(v, o))
	}
	f64Consts[text] = v
	return v
}

var opaqueZero = map[string]*Term{}

func zeroOf(t types.Type) *Term {
	t = types.Unalias(t)
	s := sortOf(t)
	switch s {
	case "Int":
		return IntLit(0)
	case "Bool":
		return False
	case StrSort:
		return StrLit("")
	case "Loc":
		return NilLoc
	case "Slice":
		return NilSlc
	case "Iface":
		return nilIface()
	case "F64":
		return f64Const("0")
	}
	if si := structOf(t); si != nil {
		args := make([]*Term, len(si.fields))
		for i := range args {
			args[i] = zeroOf(si.typ.Field(i).Type())
		}
		return si.Mk(args...)
	}
	if a, ok := t.Underlying().(*types.Array); ok {
		return ConstArray(s, zeroOf(a.Elem()))
	}
	if z, ok := opaqueZero[s]; ok {
		return z
	}
	z := Var("zero!"+s, s)
	opaqueZero[s] = z
	return z
}

func pow2(n int) *big.Int { return new(big.Int).Lsh(big.NewInt(1), uint(n)) }

// intRange returns lo, hi for integer types (64-bit platform).
func intRange(t types.Type) (lo, hi *big.Int, ok bool) {
	b, isb := types.Unalias(t).Underlying().(*types.Basic)
	if !isb || b.Info()&types.IsInteger == 0 {
		return nil, nil, false
	}
	bits, signed := 64, true
	switch b.Kind() {
	case types.Int8:
		bits = 8
	case types.Int16:
		bits = 16
	case types.Int32:
		bits = 32
	case types.Int64, types.Int, types.UntypedInt, types.UntypedRune:
		bits = 64
	case types.Uint8:
		bits, signed = 8, false
	case types.Uint16:
		bits, signed = 16, false
	case types.Uint32:
		bits, signed = 32, false
	case types.Uint64, types.Uint, types.Uintptr:
		bits, signed = 64, false
	}
	if signed {
		lo = new(big.Int).Neg(pow2(bits - 1))
		hi = new(big.Int).Sub(pow2(bits-1), big.NewInt(1))
	} else {
		lo = big.NewInt(0)
		hi = new(big.Int).Sub(pow2(bits), big.NewInt(1))
	}
	return lo, hi, true
}

// rangeFact: the machine range of an integer-typed value (nil for other types).
func rangeFact(t types.Type, v *Term) *Term {
	if isTimeTime(t) {
		return nil
	}
	lo, hi, ok := intRange(t)
	if !ok {
		if sortOf(t) == "Slice" {
			return And(Le(IntLit(0), SLen(v)), Le(SLen(v), SCap(v)), Le(IntLit(0), SOff(v)))
		}
		return nil
	}
	if _, isLit := v.IsInt(); isLit {
		return nil
	}
	return And(Le(BigLit(lo), v), Le(v, BigLit(hi)))
}

// convInt models a Go integer conversion exactly (wrap-around) but keeps it the
// identity when the source range fits the target.
func convInt(from, to types.Type, v *Term) *Term {
	flo, fhi, ok1 := intRange(from)
	tlo, thi, ok2 := intRange(to)
	if !ok1 || !ok2 {
		return v
	}
	if flo.Cmp(tlo) >= 0 && fhi.Cmp(thi) <= 0 {
		return v
	}
	if c, ok := v.IsInt(); ok {
		return BigLit(wrapBig(c, tlo, thi))
	}
	width := new(big.Int).Add(new(big.Int).Sub(thi, tlo), big.NewInt(1))
	// ((v - lo) mod width) + lo
	return Add(EMod(Sub(v, BigLit(tlo)), BigLit(width)), BigLit(tlo))
}

func wrapBig(c, lo, hi *big.Int) *big.Int {
	width := new(big.Int).Add(new(big.Int).Sub(hi, lo), big.NewInt(1))
	r := new(big.Int).Sub(c, lo)
	r.Mod(r, width)
	return r.Add(r, lo)
}

// memory class for a scalar-like (non-struct, non-array) Go type stored in memory.
func memClass(t types.Type) (name, sort string) {
	t = types.Unalias(t)
	es := sortOf(t)
	var k string
	switch u := t.Underlying().(type) {
	case *types.Pointer, *types.Map, *types.Chan, *types.Signature, *types.Interface:
		_ = u
		// all pointers share one class per SMT sort: pointer conversions and interface
		// holders cannot then alias across classes
		k = es
	default:
		k = typeKey(t)
		if isTimeTime(t) {
			k = "time.Time"
		}
	}
	k = strings.ReplaceAll(k, "github.com/influxdata/kapacitor/", "")
	k = strings.ReplaceAll(k, "github.com/influxdata/kapacitor.", "")
	return "M|" + k, arraySort("Loc", es)
}

func isStructVal(t types.Type) bool {
	return structOf(types.Unalias(t)) != nil
}
