package main

import (
	"fmt"
	"go/token"
	"go/types"
	"sort"
	"strings"

	"golang.org/x/tools/go/ssa"
)

func fnKey(fn *ssa.Function) string {
	if fn.Parent() != nil {
		n := fn.Name()
		suf := n
		if i := strings.LastIndex(n, "$"); i >= 0 {
			suf = n[i+1:]
		}
		return fnKey(fn.Parent()) + "$" + suf
	}
	if fn.Origin() != nil {
		return fnKey(fn.Origin())
	}
	if obj, ok := fn.Object().(*types.Func); ok && obj != nil {
		return funcObjKey(obj.Origin())
	}
	return fn.String()
}

// ---- parameters and entry assumptions ----

func (e *FnExec) describeInputs(name string, v *Term, t types.Type, st *State, depth int) {
	if depth > 4 || len(e.inputs) > 120 {
		return
	}
	t = types.Unalias(t)
	if isTimeTime(t) {
		e.inputs = append(e.inputs, NamedTerm{name, v, "time.Time"})
		return
	}
	if si := structOf(t); si != nil {
		for i := 0; i < si.typ.NumFields(); i++ {
			e.describeInputs(name+"."+si.typ.Field(i).Name(), si.Get(v, i), si.typ.Field(i).Type(), st, depth+1)
		}
		return
	}
	switch u := t.Underlying().(type) {
	case *types.Pointer:
		e.inputs = append(e.inputs, NamedTerm{name + "==nil", Eq(v, NilLoc), "bool"})
		if structOf(u.Elem()) != nil && depth < 3 {
			e.describeInputs("(*"+name+")", e.load(st, v, u.Elem()), u.Elem(), st, depth+1)
		}
		return
	case *types.Slice:
		e.inputs = append(e.inputs, NamedTerm{"len(" + name + ")", SLen(v), "int"}, NamedTerm{"cap(" + name + ")", SCap(v), "int"})
		if depth < 3 {
			for i := int64(0); i < 3; i++ {
				el := e.load(st, IdxLoc(SArr(v), Add(SOff(v), IntLit(i))), u.Elem())
				e.describeInputs(fmt.Sprintf("%s[%d]", name, i), el, u.Elem(), st, depth+1)
			}
		}
		return
	case *types.Map:
		e.inputs = append(e.inputs, NamedTerm{"len(" + name + ")", Select(e.getMem(st, mapLenClass, mapLenSort), v), "int"})
		return
	case *types.Interface:
		e.inputs = append(e.inputs, NamedTerm{"typeid(" + name + ")", ITag(v), "int"})
		if depth <= 2 {
			// the boxed value, read as each basic kind (meaningful for the kind the type id says)
			e.inputs = append(e.inputs, NamedTerm{"int(" + name + ")", Unbox(v, "Int"), "int"}, NamedTerm{"bool(" + name + ")", Unbox(v, "Bool"), "bool"},
				NamedTerm{"str(" + name + ")", Unbox(v, StrSort), "string"})
		}
		return
	case *types.Signature, *types.Chan, *types.Array:
		return
	}
	if s := sortOf(t); s == "Opaque" || strings.HasPrefix(s, "TP_") {
		return
	}
	e.inputs = append(e.inputs, NamedTerm{name, v, typeKey(t)})
}

func (e *FnExec) bindParams(st *State) {
	for _, p := range e.fn.Params {
		name := p.Name()
		t := Var("p_"+name, sortOf(p.Type()))
		e.vals[p] = Val{T: t}
		e.params[name] = Val{T: t}
		e.paramTy[name] = p.Type()
		e.addFact(st, e.typeFacts(p.Type(), t, st))
	}
	// pointer receivers are non-nil (asserted at every contracted call site)
	if sig := e.fn.Signature; sig.Recv() != nil && len(e.fn.Params) > 0 {
		if _, ok := types.Unalias(sig.Recv().Type()).Underlying().(*types.Pointer); ok {
			e.addFact(st, Neq(e.vals[e.fn.Params[0]].T, NilLoc))
		}
	}
	for _, p := range e.fn.Params {
		e.describeInputs(p.Name(), e.vals[p].T, p.Type(), st, 0)
	}
}

func (e *FnExec) pkgTypes() *types.Package {
	if e.fn.Pkg != nil {
		return e.fn.Pkg.Pkg
	}
	if e.fn.Parent() != nil && e.fn.Parent().Pkg != nil {
		return e.fn.Parent().Pkg.Pkg
	}
	return nil
}

// specEnv builds the environment for clauses of the function under verification.
func (e *FnExec) specEnv(st *State, scopePos token.Pos) *SpecEnv {
	env := &SpecEnv{pureIdx: -1, e: e, cur: st, old: e.entry, vars: map[string]specVar{}, pkg: e.pkgTypes(), scopePos: scopePos}
	if !scopePos.IsValid() {
		for n, v := range e.params {
			env.vars[n] = specVar{v.T, e.paramTy[n]}
		}
	} else {
		for _, li := range e.sortedLoops() {
			if li.inScope == scopePos {
				env.curLoop = li
			}
		}
	}
	return env
}

func (e *FnExec) assumeRequires(st *State) {
	if e.con == nil {
		return
	}
	for _, r := range e.con.Requires {
		env := e.specEnv(st, token.NoPos)
		g, err := env.boolExpr(r)
		if err != nil {
			e.errf("%v", err)
			continue
		}
		e.addFact(st, g)
	}
}

// ---- return: postconditions and frame ----

type locItem struct {
	class, sort string
	loc         *Term // exact location, or
	rootOf      *Term // every location inside this object, or
	arr         *Term // every element leaf (with field chain sub) of this array location
	sub         []int
	all         bool // the whole class (specification-only fields: gfall(name, Type))
}

// elemLeafOf: l is the leaf (field chain sub) of some element of the array at arr; also
// returns the element index.
func elemLeafOf(l, arr *Term, sub []int) (*Term, *Term) {
	conds := []*Term{Eq(Root(l), Root(arr))}
	p := PathOf(l)
	for i := len(sub) - 1; i >= 0; i-- {
		conds = append(conds, App("(_ is pfld)", "Bool", p), Eq(App("pfid", "Int", p), IntLit(int64(sub[i]))))
		p = App("ppar", "Path", p)
	}
	conds = append(conds, App("(_ is pidx)", "Bool", p), Eq(App("ppar2", "Path", p), PathOf(arr)))
	return And(conds...), App("pix", "Int", p)
}

func (env *SpecEnv) leafItems(loc *Term, t types.Type, out *[]locItem) {
	t = types.Unalias(t)
	if si := structOf(t); si != nil {
		for i := 0; i < si.typ.NumFields(); i++ {
			env.leafItems(FldLoc(loc, si.fids[i]), si.typ.Field(i).Type(), out)
		}
		return
	}
	if a, ok := t.Underlying().(*types.Array); ok {
		env.leafElems(loc, a.Elem(), out)
		return
	}
	c, s := memClass(t)
	*out = append(*out, locItem{class: c, sort: s, loc: loc})
}

// leafElems: all element leaves of the array at arr.
func (env *SpecEnv) leafElems(arr *Term, t types.Type, out *[]locItem) {
	var rec func(t types.Type, sub []int)
	rec = func(t types.Type, sub []int) {
		t = types.Unalias(t)
		if si := structOf(t); si != nil {
			for i := 0; i < si.typ.NumFields(); i++ {
				rec(si.typ.Field(i).Type(), append(append([]int{}, sub...), si.fids[i]))
			}
			return
		}
		if _, ok := t.Underlying().(*types.Array); ok {
			// nested arrays: fall back to the whole object
			env.leafRoot(Root(arr), t, out)
			return
		}
		c, s := memClass(t)
		*out = append(*out, locItem{class: c, sort: s, arr: arr, sub: sub})
	}
	rec(t, nil)
}

func (env *SpecEnv) leafRoot(root *Term, t types.Type, out *[]locItem) {
	env.e.eachScalar(t, nil, func(_ []int, lt types.Type) {
		c, s := memClass(lt)
		*out = append(*out, locItem{class: c, sort: s, rootOf: root})
	})
}

func (env *SpecEnv) modItems(c *Clause) (items []locItem, err error) {
	defer func() {
		if r := recover(); r != nil {
			if se, ok := r.(specErr); ok {
				err = fmt.Errorf("%s:%d: %s (in modifies %q)", c.File, c.Line, se.msg, c.Text)
				return
			}
			panic(r)
		}
	}()
	x, perr := ParseSpec("modset(" + c.Text + ")")
	if perr != nil {
		return nil, fmt.Errorf("%s:%d: %v", c.File, c.Line, perr)
	}
	for _, a := range x.Args[1:] {
		if a.Kind == "id" && a.Name == "nothing" {
			continue
		}
		if a.Kind == "call" && a.Args[0].Kind == "id" {
			switch a.Args[0].Name {
			case "elems":
				s, st := env.tr(a.Args[1])
				sl, ok := types.Unalias(st).Underlying().(*types.Slice)
				if !ok {
					env.fail("elems() needs a slice")
				}
				env.leafElems(SArr(s), sl.Elem(), &items)
				continue
			case "map":
				m, mt := env.tr(a.Args[1])
				mp, ok := types.Unalias(mt).Underlying().(*types.Map)
				if !ok {
					env.fail("map() needs a map")
				}
				d, ds, v, vs := mapClasses(mp)
				items = append(items, locItem{class: d, sort: ds, loc: m}, locItem{class: v, sort: vs, loc: m}, locItem{class: mapLenClass, sort: mapLenSort, loc: m})
				continue
			case "gfall":
				// the specification-only field `name` of every object and of every interface value
				t := env.resolveTypeExpr(a.Args[2])
				cl, so := ghostClass(a.Args[1].Name, t)
				items = append(items, locItem{class: cl, sort: so, all: true},
					locItem{class: "GI|" + a.Args[1].Name, sort: arraySort("Iface", sortOf(t)), all: true})
				continue
			case "gf", "gfi":
				o, _ := env.tr(a.Args[1])
				t := env.resolveTypeExpr(a.Args[3])
				cl, so := ghostClass(a.Args[2].Name, t)
				if a.Args[0].Name == "gfi" {
					cl, so = "GI|"+a.Args[2].Name, arraySort("Iface", sortOf(t))
				}
				items = append(items, locItem{class: cl, sort: so, loc: o})
				continue
			case "object":
				p, pt := env.tr(a.Args[1])
				if ptr, ok := types.Unalias(pt).Underlying().(*types.Pointer); ok {
					env.leafRoot(Root(p), ptr.Elem(), &items)
					continue
				}
				env.fail("object() needs a pointer")
			}
		}
		loc, t := env.addrOf(a)
		env.leafItems(loc, t, &items)
	}
	return items, nil
}

func inItems(l *Term, class string, items []locItem) *Term {
	var ds []*Term
	for _, it := range items {
		if it.class != class {
			continue
		}
		switch {
		case it.all:
			return True
		case it.loc != nil:
			ds = append(ds, Eq(l, it.loc))
		case it.arr != nil:
			c, _ := elemLeafOf(l, it.arr, it.sub)
			ds = append(ds, c)
		default:
			ds = append(ds, Eq(Root(l), it.rootOf))
		}
	}
	return Or(ds...)
}

func (e *FnExec) doReturn(st *State, r *ssa.Return) {
	e.retStates = append(e.retStates, st)
	// vacuity guard: the assumptions collected on the way to this return must be satisfiable
	e.kindN["reach"]++
	e.obls = append(e.obls, &Obligation{Name: fmt.Sprintf("%s:return-reachable#%d", e.key, e.kindN["reach"]), Kind: "vacuity-return", Func: e.key,
		Goal: False, Guard: st.reach, NFacts: len(e.facts), exec: e, Pos: e.pos(r.Pos()), Cover: true})
	if e.con == nil {
		return
	}
	// ghost assignments of the contract happen "at the return"
	for _, gs := range e.con.GhostSets {
		parts := strings.SplitN(gs.Text, ":=", 2)
		if len(parts) != 2 {
			e.errf("%s:%d: ghostset needs ':='", gs.File, gs.Line)
			continue
		}
		genv := e.specEnv(st, token.NoPos)
		items, err := genv.modItems(&Clause{Text: strings.TrimSpace(parts[0]), File: gs.File, Line: gs.Line})
		if err != nil || len(items) != 1 || items[0].loc == nil {
			e.errf("%s:%d: ghostset target must be one gf()/gfi() location", gs.File, gs.Line)
			continue
		}
		v, _, err := genv.termExpr(&Clause{Text: strings.TrimSpace(parts[1]), File: gs.File, Line: gs.Line})
		if err != nil {
			e.errf("%v", err)
			continue
		}
		it := items[0]
		e.setMem(st, it.class, it.sort, Store(e.getMem(st, it.class, it.sort), it.loc, v))
	}
	env := e.specEnv(st, token.NoPos)
	// parameters keep their entry values (bound above); the function's local variables in scope at
	// this return can be named too and have their values at the return
	env.scopePos = r.Pos()
	res := e.fn.Signature.Results()
	for i, rv := range r.Results {
		v := e.val(st, rv)
		if v.T == nil {
			e.unsupported("non-term result")
		}
		env.results = append(env.results, specVar{v.T, res.At(i).Type()})
		if n := res.At(i).Name(); n != "" && n != "_" {
			env.vars[n] = specVar{v.T, res.At(i).Type()}
		}
	}
	for _, c := range e.con.Ensures {
		g, err := env.boolExpr(c)
		if err != nil && strings.Contains(err.Error(), "unknown identifier") && strings.Contains(err.Error(), "scope=true") {
			// a local variable that is not declared yet at this return: the clause says nothing
			// here; it must be expressible at some other return (checked when the unit is done)
			if e.ensSkipped == nil {
				e.ensSkipped = map[*Clause]string{}
			}
			e.ensSkipped[c] = err.Error()
			continue
		}
		if err == nil {
			if e.ensOK == nil {
				e.ensOK = map[*Clause]bool{}
			}
			e.ensOK[c] = true
		}
		if err != nil {
			if strings.Contains(err.Error(), "no such contracted call") {
				// the clause speaks about a call the function does not make (any more): it cannot hold
				e.assert(st, "ensures", False, r.Pos(), c.Text+"  [the function makes no such call]", c.Label)
				continue
			}
			e.errf("%v", err)
			continue
		}
		e.assert(st, "ensures", g, r.Pos(), c.Text, c.Label)
	}
	for _, c := range e.con.Covers {
		g, err := env.boolExpr(c)
		if err != nil {
			e.errf("%v", err)
			continue
		}
		e.kindN["cover"]++
		e.obls = append(e.obls, &Obligation{Name: fmt.Sprintf("%s:cover#%d", e.key, e.kindN["cover"]), Kind: "cover", Func: e.key,
			Goal: Not(g), Guard: st.reach, NFacts: len(e.facts), exec: e, Pos: e.pos(r.Pos()), Clause: c.Text, Cover: true})
	}
	// frame
	if len(e.con.Modifies) > 0 || e.con.Pure {
		var items []locItem
		menv := e.specEnv(e.entry, token.NoPos)
		menv.cur = e.entry
		for _, m := range e.con.Modifies {
			its, err := menv.modItems(m)
			if err != nil {
				e.errf("%v", err)
				continue
			}
			items = append(items, its...)
		}
		classes := map[string]bool{}
		for c := range st.mem {
			classes[c] = true
		}
		if st.epoch != 0 {
			for c := range e.classes {
				classes[c] = true
			}
		}
		for _, c := range sortedKeys(classes) {
			sort := e.classes[c]
			cur := e.getMem(st, c, sort)
			ent := e.memVar(c, sort, 0)
			if cur == ent {
				continue
			}
			var goal *Term
			if strings.HasPrefix(sort, "(Array Iface ") {
				l := Fresh("frame_i", "Iface")
				goal = Imp(Not(inItems(l, c, items)), Eq(Select(cur, l), Select(ent, l)))
			} else {
				l := Fresh("frame_l", "Loc")
				goal = Imp(And(Lt(Root(l), e.entry.ctr), Not(inItems(l, c, items))), Eq(Select(cur, l), Select(ent, l)))
			}
			e.assert(st, "frame", goal, r.Pos(), "modifies: nothing outside the declared frame changes in "+c, strings.TrimPrefix(c, "M|"))
		}
	}
}

// ---- calls ----

func (e *FnExec) calleeKey(c *ssa.CallCommon) (key string, sig *types.Signature, static *ssa.Function) {
	if c.IsInvoke() {
		return funcObjKey(c.Method), c.Method.Type().(*types.Signature), nil
	}
	if f := c.StaticCallee(); f != nil {
		return fnKey(f), f.Signature, f
	}
	return "", c.Signature(), nil
}

// callModifies returns the memory classes a call may modify, or nil for "anything".
func (e *FnExec) callModifies(c *ssa.CallCommon) map[string]string {
	if _, ok := c.Value.(*ssa.Builtin); ok {
		b := c.Value.(*ssa.Builtin)
		out := map[string]string{}
		switch b.Name() {
		case "append", "copy":
			if sl, ok := c.Args[0].Type().Underlying().(*types.Slice); ok {
				e.eachScalar(sl.Elem(), nil, func(_ []int, t types.Type) {
					cl, s := memClass(t)
					out[cl] = s
				})
			}
		case "delete", "clear":
			if m, ok := c.Args[0].Type().Underlying().(*types.Map); ok {
				d, ds, v, vs := mapClasses(m)
				out[d], out[v], out[mapLenClass] = ds, vs, mapLenSort
			}
		}
		return out
	}
	key, _, _ := e.calleeKey(c)
	if key == "" {
		return nil
	}
	con := e.P.cs.Funcs[key]
	if con == nil {
		if e.P.effectFree(key) {
			return map[string]string{}
		}
		return nil
	}
	if con.Pure {
		return map[string]string{}
	}
	if len(con.Modifies) == 0 {
		return nil
	}
	// classes by type of the modified locations: evaluate lazily with a throwaway env is not
	// possible here (no state), so use the declared classes recorded at first evaluation
	if cl, ok := e.P.modClasses[key]; ok {
		return cl
	}
	// not applied yet (first call site sits inside the loop being entered): a frame of only
	// `nothing` needs no evaluation
	onlyNothing := true
	for _, m := range con.Modifies {
		if strings.TrimSpace(m.Text) != "nothing" {
			onlyNothing = false
		}
	}
	if onlyNothing {
		return map[string]string{}
	}
	// evaluate the frame once over placeholder arguments: only the classes (types) of the items matter
	if cl := e.dryModClasses(key, con, c); cl != nil {
		e.P.modClasses[key] = cl
		return cl
	}
	return nil
}

// dryModClasses translates the modifies clauses of a callee's contract with fresh placeholder
// arguments on a throwaway copy of the entry state and returns the memory classes they name.
// Facts and obligations produced on the way are discarded.
func (e *FnExec) dryModClasses(key string, con *Contract, c *ssa.CallCommon) (out map[string]string) {
	_, sig, _ := e.calleeKey(c)
	if sig == nil || e.entry == nil {
		return nil
	}
	nf, nb, no, ne := len(e.facts), len(e.factBlock), len(e.obls), len(e.errs)
	defer func() {
		if r := recover(); r != nil {
			out = nil
		}
		e.facts, e.obls = e.facts[:nf], e.obls[:no]
		if len(e.factBlock) > nb {
			e.factBlock = e.factBlock[:nb]
		}
		if len(e.errs) > ne {
			e.errs = e.errs[:ne]
		}
	}()
	st := e.entry.clone()
	pkg := e.P.typesPkg(con.PkgPath)
	env := &SpecEnv{pureIdx: -1, e: e, cur: st, old: nil, vars: map[string]specVar{}, pkg: pkg}
	if sig.Recv() != nil {
		rn := sig.Recv().Name()
		rt := sig.Recv().Type()
		if c.IsInvoke() {
			rt = c.Value.Type()
		}
		if rn == "" || rn == "_" {
			rn = "recv"
		}
		v := Fresh("dry_recv", sortOf(rt))
		env.vars[rn] = specVar{v, rt}
		env.vars["recv"] = specVar{v, rt}
	}
	for k := 0; k < sig.Params().Len(); k++ {
		p := sig.Params().At(k)
		n := p.Name()
		if n == "" || n == "_" {
			n = fmt.Sprintf("p%d", k)
		}
		env.vars[n] = specVar{Fresh("dry_"+n, sortOf(p.Type())), p.Type()}
	}
	out = map[string]string{}
	for _, m := range con.Modifies {
		its, err := env.modItems(m)
		if err != nil {
			return nil
		}
		for _, it := range its {
			out[it.class] = it.sort
		}
	}
	return out
}

func (e *FnExec) call(st *State, instr ssa.Instruction, c *ssa.CallCommon, res ssa.Value) {
	if b, ok := c.Value.(*ssa.Builtin); ok {
		e.builtin(st, b, c, res, instr.Pos())
		return
	}
	key, sig, _ := e.calleeKey(c)
	if key == "" && e.con != nil && e.con.Guards != nil {
		// call through a function value: check the declared guard of that value
		name := ""
		switch v := c.Value.(type) {
		case *ssa.Parameter:
			name = v.Name()
		case *ssa.FreeVar:
			name = v.Name()
		case *ssa.UnOp:
			if fv, ok := v.X.(*ssa.FreeVar); ok {
				name = fv.Name()
			} else if a, ok := v.X.(*ssa.Alloc); ok {
				name = a.Comment
			}
		}
		if name != "" {
			gk := fmt.Sprintf("%s#%d", name, e.guardOrdinal(name, instr))
			if g, ok := e.con.Guards[gk]; ok {
				env := e.specEnv(st, instr.Pos())
				env.block = instr.Block()
				t, err := env.boolExpr(g)
				if err != nil && strings.Contains(err.Error(), "no such contracted call") {
					// the guard speaks about a call the function does not make (any more): it cannot hold
					t, err = False, nil
				}
				if err != nil {
					e.errf("%v", err)
				} else {
					e.assert(st, "guardcall", t, instr.Pos(), "call through "+gk+" only when "+g.Text, gk)
					e.guardSeen[gk] = true
				}
			} else {
				e.errf("call through function value %s has no guardcall clause %s", name, gk)
			}
		}
	}
	var args []*Term
	if c.IsInvoke() {
		rv := e.term(st, c.Value)
		args = append(args, rv)
		// a method call on a nil interface value panics
		e.assert(st, "nil", Neq(ITag(rv), IntLit(0)), instr.Pos(), "method call on a nil interface value", "")
	}
	for _, a := range c.Args {
		v := e.val(st, a)
		if v.T == nil {
			// pointer to a non-escaping local cannot be passed: analysis guarantees it is not
			e.unsupported("call argument is a pointer to a register cell")
		}
		args = append(args, v.T)
	}
	// a call through a function-valued parameter declared pure (opt purefunc=<name>): the result
	// is an uninterpreted function of the function value and the arguments, nothing is modified
	if key == "" && e.con != nil && res != nil {
		var pv ssa.Value
		pname := ""
		switch v := c.Value.(type) {
		case *ssa.Parameter:
			pv, pname = v, v.Name()
		case *ssa.UnOp:
			if a, ok := v.X.(*ssa.Alloc); ok {
				pv, pname = v, a.Comment
			}
		}
		if pv != nil && e.con.Opts["purefunc"] == pname && c.Signature().Results().Len() == 1 {
			rt := c.Signature().Results().At(0).Type()
			r := UF("apply!"+sigKey(pv.Type()), sortOf(rt), append([]*Term{e.term(st, pv)}, args...)...)
			e.addFact(st, e.typeFacts(rt, r, st))
			e.set(res, r)
			return
		}
	}
	var con *Contract
	var closureOf *ssa.MakeClosure
	if key != "" {
		for _, a := range c.Args {
			if mi, ok := a.(*ssa.MakeInterface); ok {
				if sc := e.P.cs.Funcs[key+"@"+typeKeyNoArgs(mi.X.Type())]; sc != nil {
					key = key + "@" + typeKeyNoArgs(mi.X.Type())
					con = sc
					break
				}
			}
		}
		if con == nil {
			con = e.P.cs.Funcs[key]
		}
	}
	if con == nil && key == "" {
		// a call through a function-valued struct field: contract keyed field:<Type>.<field>
		// (an assumption about every function ever stored in that field)
		if u, ok := c.Value.(*ssa.UnOp); ok && u.Op == token.MUL {
			if fa, ok := u.X.(*ssa.FieldAddr); ok {
				if pt, ok := fa.X.Type().Underlying().(*types.Pointer); ok {
					if nt, ok := types.Unalias(pt.Elem()).(*types.Named); ok && nt.Obj().Pkg() != nil {
						if stt, ok := nt.Underlying().(*types.Struct); ok {
							fk := nt.Obj().Pkg().Path() + ".field:" + nt.Obj().Name() + "." + stt.Field(fa.Field).Name()
							if fc := e.P.cs.Funcs[fk]; fc != nil {
								key, con, sig = fk, fc, c.Signature()
							}
						}
					}
				}
			}
		}
	}
	if con == nil {
		// dynamic closure with known target?
		if key == "" {
			if mc, ok := c.Value.(*ssa.MakeClosure); ok {
				key = fnKey(mc.Fn.(*ssa.Function))
				con = e.P.cs.Funcs[key]
				closureOf = mc
			} else if v := e.val(st, c.Value); v.T != nil {
				// a local variable holding a closure created in this function
				if mc, ok := e.closures[v.T]; ok {
					key = fnKey(mc.Fn.(*ssa.Function))
					con = e.P.cs.Funcs[key]
					sig = mc.Fn.(*ssa.Function).Signature
					closureOf = mc
				}
			}
		}
	}
	if con == nil && key != "" && e.con != nil && e.con.Guards != nil {
		// a guard can also be put on a call to a callee without contract (its effects are unknown,
		// the condition under which it may be called is still checkable)
		name := lastName(key)
		gk := fmt.Sprintf("%s#%d", name, e.guardOrdinal(name, instr))
		if g, ok := e.con.Guards[gk]; ok {
			env := e.specEnv(st, instr.Pos())
			env.block = instr.Block()
			off := 0
			if sig != nil && sig.Recv() != nil {
				off = 1
			}
			if sig != nil {
				for k := 0; k < sig.Params().Len() && off+k < len(args); k++ {
					env.vars[fmt.Sprintf("arg%d", k)] = specVar{args[off+k], sig.Params().At(k).Type()}
				}
			}
			t, err := env.boolExpr(g)
			if err != nil && strings.Contains(err.Error(), "no such contracted call") {
				t, err = False, nil
			}
			if err != nil {
				e.errf("%v", err)
			} else {
				e.assert(st, "guardcall", t, instr.Pos(), "call "+gk+" only when "+g.Text, gk)
				e.guardSeen[gk] = true
			}
		}
	}
	if con == nil {
		if key != "" {
			e.noteCall(st, key, args, sig, c)
		}
		e.uncontractedCall(st, key, c, res, instr.Pos())
		return
	}
	if e.con != nil && e.con.Guards != nil {
		name := lastName(key)
		gk := fmt.Sprintf("%s#%d", name, e.guardOrdinal(name, instr))
		if g, ok := e.con.Guards[gk]; ok {
			env := e.specEnv(st, instr.Pos())
			env.block = instr.Block()
			// the actual arguments of the guarded call: arg0, arg1, ... (receiver not counted)
			off := 0
			if sig != nil && sig.Recv() != nil {
				off = 1
			}
			if sig != nil {
				for k := 0; k < sig.Params().Len() && off+k < len(args); k++ {
					env.vars[fmt.Sprintf("arg%d", k)] = specVar{args[off+k], sig.Params().At(k).Type()}
				}
			}
			t, err := env.boolExpr(g)
			if err != nil && strings.Contains(err.Error(), "no such contracted call") {
				// the guard speaks about a call the function does not make (any more): it cannot hold
				t, err = False, nil
			}
			if err != nil {
				e.errf("%v", err)
			} else {
				e.assert(st, "guardcall", t, instr.Pos(), "call "+gk+" only when "+g.Text, gk)
				e.guardSeen[gk] = true
			}
		}
	}
	con.used++
	e.noteCall(st, key, args, sig, c)
	e.curClosure = closureOf
	e.applyContract(st, key, con, sig, c, args, res, instr.Pos(), True)
	e.curClosure = nil
}

// noteCall maintains the ghost state behind called(name) / callarg(name, i) / guardcall for
// statically known callees.
func (e *FnExec) noteCall(st *State, key string, args []*Term, sig *types.Signature, c *ssa.CallCommon) {
	name := lastName(key)
	if id, ok := e.calledCell[name]; ok {
		st.cells[id] = True
	}
	if q := e.qualifiedCallName(c, name); q != "" {
		if id, ok := e.calledCell[q]; ok {
			st.cells[id] = True
		}
	}
	for _, g := range e.calledWith {
		if g.name != name {
			continue
		}
		off0 := 0
		if sig.Recv() != nil {
			off0 = 1
		}
		if off0+g.k >= len(args) {
			continue
		}
		env := e.specEnv(st, token.NoPos)
		x, perr := ParseSpec(g.expr)
		if perr != nil {
			e.errf("calledwith(%s, %d, %s): %v", g.name, g.k, g.expr, perr)
			continue
		}
		var v *Term
		func() {
			defer func() {
				if r := recover(); r != nil {
					e.errf("calledwith(%s, %d, %s): %v", g.name, g.k, g.expr, r)
				}
			}()
			v, _ = env.tr(x)
		}()
		if v == nil || v.Sort != args[off0+g.k].Sort {
			continue
		}
		cur := st.cells[g.cell]
		if cur == nil {
			cur = False
		}
		st.cells[g.cell] = Or(cur, Eq(args[off0+g.k], v))
	}
	off := 0
	if sig.Recv() != nil {
		off = 1
	}
	// callarg(name, k) denotes a ghost constant; it equals the actual argument on the paths
	// where the call happens (the call must not sit in a loop)
	if gs, ok := e.callArgs[name]; ok {
		for k, g := range gs {
			if off+k < len(args) && g.v != nil && g.v.Sort == args[off+k].Sort {
				e.addFact(st, Eq(g.v, args[off+k]))
			}
		}
	}
	// callrecv(name): the receiver of that call
	if gs, ok := e.callArgs[name+"@recv"]; ok && off == 1 && len(args) > 0 && len(gs) == 1 && gs[0].v.Sort == args[0].Sort {
		e.addFact(st, Eq(gs[0].v, args[0]))
	}
}

// qualifiedCallName: "param.Method" when the call is a method call whose receiver is a
// parameter of the unit (contracts of table entries tell the left operand's call from the right's).
func (e *FnExec) qualifiedCallName(c *ssa.CallCommon, name string) string {
	if c == nil {
		return ""
	}
	var recv ssa.Value
	if c.IsInvoke() {
		recv = c.Value
	} else if len(c.Args) > 0 && c.Signature().Recv() != nil {
		recv = c.Args[0]
	}
	suffix := "." + name
	for recv != nil {
		switch x := recv.(type) {
		case *ssa.Parameter:
			return x.Name() + suffix
		case *ssa.UnOp:
			if x.Op != token.MUL {
				return ""
			}
			// a spilled parameter: load of the parameter's stack slot
			if a, ok := x.X.(*ssa.Alloc); ok {
				for _, p := range e.fn.Params {
					if p.Name() == a.Comment {
						return p.Name() + suffix
					}
				}
				return ""
			}
			// a field of a parameter (p.f.M, p.f.g.M): load of a field address
			if fa, ok := x.X.(*ssa.FieldAddr); ok {
				if pt, ok := fa.X.Type().Underlying().(*types.Pointer); ok {
					if stt, ok := pt.Elem().Underlying().(*types.Struct); ok {
						suffix = "." + stt.Field(fa.Field).Name() + suffix
						recv = fa.X
						continue
					}
				}
			}
			return ""
		default:
			return ""
		}
	}
	return ""
}

// guardName: the name under which a call site can be guarded (guardcall <name>#<n>): the callee's
// last name, or the name of the function-valued variable it is called through.
func (e *FnExec) guardName(c *ssa.CallCommon) string {
	if _, ok := c.Value.(*ssa.Builtin); ok {
		return ""
	}
	key, _, _ := e.calleeKey(c)
	if key != "" {
		return lastName(key)
	}
	switch v := c.Value.(type) {
	case *ssa.Parameter:
		return v.Name()
	case *ssa.FreeVar:
		return v.Name()
	case *ssa.UnOp:
		if fv, ok := v.X.(*ssa.FreeVar); ok {
			return fv.Name()
		} else if a, ok := v.X.(*ssa.Alloc); ok {
			return a.Comment
		}
	}
	return ""
}

// guardOrdinal: call sites of one name are numbered in SOURCE order (position), 1-based.
func (e *FnExec) guardOrdinal(name string, instr ssa.Instruction) int {
	if e.guardOrd == nil {
		e.guardOrd = map[ssa.Instruction]int{}
		byName := map[string][]ssa.Instruction{}
		for _, b := range e.fn.Blocks {
			for _, ins := range b.Instrs {
				if ci, ok := ins.(ssa.CallInstruction); ok {
					if n := e.guardName(ci.Common()); n != "" {
						byName[n] = append(byName[n], ins)
					}
				}
			}
		}
		for _, l := range byName {
			sort.SliceStable(l, func(i, j int) bool { return l[i].Pos() < l[j].Pos() })
			for i, ins := range l {
				e.guardOrd[ins] = i + 1
			}
		}
	}
	if n, ok := e.guardOrd[instr]; ok {
		return n
	}
	e.guardN[name]++
	return 1000 + e.guardN[name]
}

// staticCallResultType: the type of result k of some call in the unit named name
// ("Method" or "param.Method"), nil when there is no such call.
func (e *FnExec) staticCallResultType(name string, k int) types.Type {
	for _, b := range e.fn.Blocks {
		for _, ins := range b.Instrs {
			ci, ok := ins.(ssa.CallInstruction)
			if !ok {
				continue
			}
			key, sig, _ := e.calleeKey(ci.Common())
			if key == "" || sig == nil {
				continue
			}
			ln := lastName(key)
			if ln != name && e.qualifiedCallName(ci.Common(), ln) != name {
				continue
			}
			if k < sig.Results().Len() {
				return sig.Results().At(k).Type()
			}
		}
	}
	return nil
}

// ensurePanicCells creates the specification state behind panicking() / recovered().
func (e *FnExec) ensurePanicCells(st *State) {
	if e.panickingVar != nil {
		return
	}
	e.panickingVar = Var("panicking@entry", "Bool")
	e.ncell++
	e.recoveredCell = e.ncell
	e.cellType[e.ncell] = types.Typ[types.Bool]
	e.cellName[e.ncell] = "recovered"
	e.inputs = append(e.inputs, NamedTerm{"panicking()", e.panickingVar, "bool"})
}

// initCallArgGhosts pre-creates the ghost constants behind callarg(name, k).
func (e *FnExec) initCallArgGhosts() {
	if e.con == nil {
		return
	}
	var texts []string
	for _, c := range e.con.Ensures {
		texts = append(texts, c.Text)
	}
	for _, c := range e.con.Guards {
		texts = append(texts, c.Text)
	}
	for _, l := range e.con.Loops {
		for _, c := range l.Invariants {
			texts = append(texts, c.Text)
		}
	}
	names := map[string]bool{}
	for _, t := range texts {
		for {
			i := strings.Index(t, "callarg(")
			n := len("callarg(")
			if j := strings.Index(t, "callrecv("); j >= 0 && (i < 0 || j < i) {
				i, n = j, len("callrecv(")
			}
			if i < 0 {
				break
			}
			t = t[i+n:]
			j := strings.IndexAny(t, ",)")
			if j < 0 {
				break
			}
			names[strings.TrimSpace(t[:j])] = true
		}
	}
	for _, b := range e.fn.Blocks {
		for _, ins := range b.Instrs {
			ci, ok := ins.(ssa.CallInstruction)
			if !ok {
				continue
			}
			key, sig, _ := e.calleeKey(ci.Common())
			if key == "" || !names[lastName(key)] {
				continue
			}
			if _, done := e.callArgs[lastName(key)]; done {
				continue
			}
			var gs []specVar
			for k := 0; k < sig.Params().Len(); k++ {
				t := sig.Params().At(k).Type()
				gs = append(gs, specVar{Var(fmt.Sprintf("callarg!%s!%d", lastName(key), k), sortOf(t)), t})
			}
			e.callArgs[lastName(key)] = gs
			if sig.Recv() != nil {
				rt := sig.Recv().Type()
				e.callArgs[lastName(key)+"@recv"] = []specVar{{Var(fmt.Sprintf("callrecv!%s", lastName(key)), sortOf(rt)), rt}}
			}
		}
	}
}

func (e *FnExec) uncontractedCall(st *State, key string, c *ssa.CallCommon, res ssa.Value, pos token.Pos) {
	name := key
	if name == "" {
		name = "dynamic call " + c.Value.Name()
	}
	if key != "" && e.P.effectFree(key) {
		e.assumed["effect-free (allow-list): "+key]++
		if isLockAcquire(key) {
			e.lockAcquired(st, pos)
		}
	} else {
		e.note("call to %s has no contract: all memory havocked", name)
		e.assumed["uncontracted call (havoc): "+name]++
		e.havocAll(st, name)
	}
	if res != nil {
		e.setFresh(st, res, "result of "+name)
	}
	// a call through a function-valued parameter can be named in the contract: called(f), callresult(f, k)
	if key == "" {
		pname := ""
		switch v := c.Value.(type) {
		case *ssa.Parameter:
			pname = v.Name()
		case *ssa.UnOp:
			if a, ok := v.X.(*ssa.Alloc); ok {
				for _, p := range e.fn.Params {
					if p.Name() == a.Comment {
						pname = p.Name()
					}
				}
			}
		}
		if pname != "" {
			if id, ok := e.calledCell[pname]; ok {
				st.cells[id] = True
			}
			if res != nil {
				v := e.vals[res]
				rs := c.Signature().Results()
				if v.T != nil && rs.Len() == 1 {
					e.callResults[pname+"/0"] = specVar{v.T, rs.At(0).Type()}
				}
				for k, tv := range v.Tuple {
					if tv.T != nil && k < rs.Len() {
						e.callResults[fmt.Sprintf("%s/%d", pname, k)] = specVar{tv.T, rs.At(k).Type()}
					}
				}
			}
		}
	}
}

// applyContract: assert pre, havoc frame, assume post.
func (e *FnExec) applyContract(st *State, key string, con *Contract, sig *types.Signature, c *ssa.CallCommon, args []*Term, res ssa.Value, pos token.Pos, guard *Term) {
	pkg := e.P.typesPkg(con.PkgPath)
	env := &SpecEnv{pureIdx: -1, e: e, cur: st, old: nil, vars: map[string]specVar{}, pkg: pkg}
	env.vars["callid"] = specVar{Fresh("callid", "Int"), types.Typ[types.Int]}
	// bind names
	i := 0
	if sig.Recv() != nil {
		rn := sig.Recv().Name()
		rt := sig.Recv().Type()
		if c.IsInvoke() {
			rt = c.Value.Type()
		}
		if rn == "" || rn == "_" {
			rn = "recv"
		}
		if i < len(args) {
			env.vars[rn] = specVar{args[i], rt}
			env.vars["recv"] = specVar{args[i], rt}
			if _, isPtr := types.Unalias(rt).Underlying().(*types.Pointer); isPtr {
				e.assert(st, "requires@callee", Neq(args[i], NilLoc), pos, "receiver of "+shortType(key)+" is non-nil", "recv")
			}
			i++
		}
	}
	for k := 0; k < sig.Params().Len() && i < len(args); k++ {
		p := sig.Params().At(k)
		n := p.Name()
		if n == "" || n == "_" {
			n = fmt.Sprintf("p%d", k)
		}
		env.vars[n] = specVar{args[i], p.Type()}
		i++
	}
	// free variables of closures
	mc, ok := c.Value.(*ssa.MakeClosure)
	if !ok && e.curClosure != nil {
		mc, ok = e.curClosure, true
	}
	if ok {
		fn := mc.Fn.(*ssa.Function)
		for k, fv := range fn.FreeVars {
			bv := e.val(st, mc.Bindings[k])
			if bv.T != nil {
				if p, ok := fv.Type().(*types.Pointer); ok {
					env.vars[fv.Name()] = specVar{e.load(st, bv.T, p.Elem()), p.Elem()}
				}
			}
		}
	}
	for _, r := range con.Requires {
		g, err := env.boolExpr(r)
		if err != nil {
			e.errf("%v", err)
			continue
		}
		e.assert(st, "requires@callee", Imp(guard, g), pos, shortType(key)+" requires "+r.Text, r.Label)
	}
	pre := st.clone()
	// havoc
	if !con.Pure {
		if len(con.Modifies) == 0 {
			e.note("contract of %s has no modifies clause: all memory havocked at calls", key)
			e.havocAll(st, key)
		} else {
			var items []locItem
			for _, m := range con.Modifies {
				its, err := env.modItems(m)
				if err != nil {
					e.errf("%v", err)
					continue
				}
				items = append(items, its...)
			}
			var havocked []*Term
			defer func() {
				for _, hv := range havocked {
					if hv.Sort == "Loc" {
						e.addFact(st, Lt(Root(hv), st.ctr))
					} else {
						e.addFact(st, And(Lt(Root(SArr(hv)), st.ctr), Le(IntLit(0), SLen(hv)), Le(SLen(hv), SCap(hv)), Le(IntLit(0), SOff(hv))))
					}
				}
			}()
			classes := map[string]string{}
			for _, it := range items {
				classes[it.class] = it.sort
			}
			for _, li := range e.sortedLoops() {
				if li.framed && li.blocks[e.curBlock] {
					for _, it := range items {
						var g *Term
						if it.loc != nil {
							// nil-based locations cannot be written at all
							g = Or(inItems(it.loc, it.class, li.items), Le(li.before.ctr, Root(it.loc)), Eq(Root(it.loc), IntLit(0)))
						} else if it.all {
							g = False
							for _, lit := range li.items {
								if lit.class == it.class && lit.all {
									g = True
								}
							}
						} else {
							var ds []*Term
							for _, lit := range li.items {
								if lit.class != it.class {
									continue
								}
								if lit.rootOf != nil && it.rootOf != nil {
									ds = append(ds, Eq(lit.rootOf, it.rootOf))
								}
								if lit.rootOf != nil && it.arr != nil {
									ds = append(ds, Eq(lit.rootOf, Root(it.arr)))
								}
								if lit.arr != nil && it.arr != nil {
									ds = append(ds, Eq(lit.arr, it.arr))
								}
							}
							g = Or(ds...)
						}
						e.assert(st, "loop-frame", Imp(guard, g), pos, fmt.Sprintf("frame of callee %s stays inside the frame declared for loop %d", shortType(key), li.ordinal), fmt.Sprintf("loop%d", li.ordinal))
					}
				}
			}
			if e.P.modClasses[key] == nil {
				e.P.modClasses[key] = classes
			}
			for _, cl := range sortedKeys(classes) {
				sort := classes[cl]
				old := e.getMem(pre, cl, sort)
				exact := true
				for _, it := range items {
					if it.class == cl && it.loc == nil {
						exact = false
					}
				}
				var nw *Term
				if exact {
					nw = old
					for _, it := range items {
						if it.class == cl {
							hv := Fresh("hv", arrayElemSort(sort))
							switch hv.Sort {
							case "Loc":
								e.addFact(st, Lt(Root(hv), Add(st.ctr, IntLit(1<<30))))
								havocked = append(havocked, hv)
							case "Slice":
								havocked = append(havocked, hv)
							}
							nw = Store(nw, it.loc, hv)
						}
					}
				} else {
					nw = e.freshMem(st, "hv_"+cl, sort)
					l := BVar("l", "Loc")
					es := arrayElemSort(sort)
					e.addFact(st, Forall([]*Term{l}, Imp(Not(inItems(l, cl, items)), Eq(App("select", es, nw, l), App("select", es, old, l)))))
				}
				if guard != True {
					nw = Ite(guard, nw, old)
				}
				e.setMem(st, cl, sort, nw)
			}
			nc := Fresh("ctr", "Int")
			e.addFact(st, Le(st.ctr, nc))
			st.ctr = nc
		}
	}
	// results
	post := &SpecEnv{pureIdx: -1, e: e, cur: st, old: pre, vars: env.vars, pkg: pkg, atCallSite: true}
	if res != nil {
		rs := sig.Results()
		var rvals []Val
		for k := 0; k < rs.Len(); k++ {
			rt := rs.At(k).Type()
			var t *Term
			if con.Pure {
				uargs, uname := args, "pure!"+key
				if rs.Len() > 1 {
					uname = fmt.Sprintf("pure!%s#%d", key, k)
				}
				if sig.Variadic() && len(args) > 0 {
					// flatten a variadic slice of known small length into its elements
					last := args[len(args)-1]
					if k, ok := SLen(last).IsInt(); ok && k.IsInt64() && k.Int64() <= 6 {
						et := sig.Params().At(sig.Params().Len() - 1).Type().(*types.Slice).Elem()
						uargs = append([]*Term{}, args[:len(args)-1]...)
						for i := int64(0); i < k.Int64(); i++ {
							uargs = append(uargs, e.load(pre, IdxLoc(SArr(last), Add(SOff(last), IntLit(i))), et))
						}
						uname = fmt.Sprintf("%s/%d", uname, k.Int64())
					}
				}
				t = UF(uname, sortOf(rt), uargs...)
			} else {
				t = Fresh("r_"+lastName(key), sortOf(rt))
			}
			e.addFact(st, e.typeFacts(rt, t, st))
			rvals = append(rvals, Val{T: t})
			post.results = append(post.results, specVar{t, rt})
			if n := rs.At(k).Name(); n != "" && n != "_" {
				post.vars[n] = specVar{t, rt}
			}
		}
		switch {
		case rs.Len() == 1:
			e.vals[res] = rvals[0]
		case rs.Len() > 1:
			e.vals[res] = Val{Tuple: rvals}
		}
		for k := 0; k < rs.Len(); k++ {
			e.callResults[fmt.Sprintf("%s/%d", lastName(key), k)] = specVar{rvals[k].T, rs.At(k).Type()}
			if q := e.qualifiedCallName(c, lastName(key)); q != "" {
				e.callResults[fmt.Sprintf("%s/%d", q, k)] = specVar{rvals[k].T, rs.At(k).Type()}
				// what a parameter's method returned is an input of the unit (for replay)
				if so := rvals[k].T.Sort; !con.Pure && (so == "Int" || so == "Bool" || so == StrSort) {
					e.inputs = append(e.inputs, NamedTerm{fmt.Sprintf("call:%s/%d", q, k), rvals[k].T, typeKey(rs.At(k).Type())})
				}
			}
		}
	}
	for _, en := range con.Ensures {
		g, err := post.boolExpr(en)
		if err != nil {
			// a verified callee may state a postcondition over its own local variables (values at
			// its return): callers cannot see those, the clause is simply not available to them.
			// (For a trusted callee an unknown identifier stays an error: nothing else checks it.)
			localOnly := strings.Contains(err.Error(), "unknown identifier") && !con.Trusted && !con.NoVerify
			if !strings.Contains(err.Error(), "@skip") && !localOnly {
				e.errf("%v", err)
			}
			continue
		}
		e.addFact(st, Imp(guard, g))
	}
	if con.Trusted || con.NoVerify {
		e.assumed["trusted contract: "+key]++
	}
}

func lastName(key string) string {
	if i := strings.LastIndexAny(key, "./)"); i >= 0 {
		return key[i+1:]
	}
	return key
}

func (e *FnExec) builtin(st *State, b *ssa.Builtin, c *ssa.CallCommon, res ssa.Value, pos token.Pos) {
	arg := func(i int) *Term { return e.term(st, c.Args[i]) }
	switch b.Name() {
	case "len":
		v := arg(0)
		switch t := c.Args[0].Type().Underlying().(type) {
		case *types.Slice:
			e.set(res, SLen(v))
		case *types.Basic:
			r := strLen(v)
			e.set(res, r)
		case *types.Map:
			r := Ite(Eq(v, NilLoc), IntLit(0), Select(e.getMem(st, mapLenClass, mapLenSort), v))
			// physical bound, as for slices: an existing map holds at most 2^46 entries
			e.addFact(st, And(Le(IntLit(0), r), Le(r, IntLit(1<<46))))
			e.assumed["existing maps hold at most 2^46 entries (physical bound, as for slices)"]++
			e.set(res, r)
		case *types.Array:
			e.set(res, IntLit(t.Len()))
		case *types.Pointer:
			e.set(res, IntLit(t.Elem().Underlying().(*types.Array).Len()))
		case *types.Chan:
			r := e.setFresh(st, res, "len(chan)")
			e.addFact(st, Le(IntLit(0), r))
		default:
			e.setFresh(st, res, "len")
		}
	case "cap":
		v := arg(0)
		switch t := c.Args[0].Type().Underlying().(type) {
		case *types.Slice:
			e.set(res, SCap(v))
		case *types.Array:
			e.set(res, IntLit(t.Len()))
		default:
			r := e.setFresh(st, res, "cap")
			e.addFact(st, Le(IntLit(0), r))
		}
	case "append":
		e.appendBuiltin(st, c, res)
	case "copy":
		e.copyBuiltin(st, c, res)
	case "delete":
		mt := c.Args[0].Type().Underlying().(*types.Map)
		m, k := arg(0), arg(1)
		d, ds, _, _ := mapClasses(mt)
		dm := e.getMem(st, d, ds)
		lm := e.getMem(st, mapLenClass, mapLenSort)
		had := And(Neq(m, NilLoc), Select(Select(dm, m), k))
		e.setMem(st, mapLenClass, mapLenSort, Ite(had, Store(lm, m, Sub(Select(lm, m), IntLit(1))), lm))
		e.setMem(st, d, ds, Ite(Neq(m, NilLoc), Store(dm, m, Store(Select(dm, m), k, False)), dm))
	case "min", "max":
		r := arg(0)
		for i := 1; i < len(c.Args); i++ {
			a := arg(i)
			if r.Sort != "Int" {
				e.setFresh(st, res, "min/max on non-int")
				return
			}
			if b.Name() == "min" {
				r = Ite(Le(r, a), r, a)
			} else {
				r = Ite(Le(r, a), a, r)
			}
		}
		e.set(res, r)
	case "print", "println", "close":
	case "recover":
		// The unit may be a deferred function running while its caller panics (the entry flag
		// `panicking`, either value). recover() returns non-nil exactly for the first call made
		// while panicking, and that call stops the panic.
		e.ensurePanicCells(st)
		cur := st.cells[e.recoveredCell]
		if cur == nil {
			cur = False
		}
		active := And(e.panickingVar, Not(cur))
		if res != nil {
			e.setFresh(st, res, "recover")
			if v := e.vals[res]; v.T != nil && v.T.Sort == "Iface" {
				e.addFact(st, Eq(Neq(ITag(v.T), IntLit(0)), active))
			}
		}
		st.cells[e.recoveredCell] = Or(cur, e.panickingVar)
	case "ssa:wrapnilchk":
		e.set(res, arg(0))
	case "ssa:deferstack":
		e.set(res, zeroOf(res.Type()))
	case "clear":
		e.note("clear() abstracted: all memory havocked")
		e.havocAll(st, "clear")
	default:
		if res != nil {
			e.note("builtin %s abstracted", b.Name())
			e.setFresh(st, res, b.Name())
		}
	}
}

func (e *FnExec) appendBuiltin(st *State, c *ssa.CallCommon, res ssa.Value) {
	s := e.term(st, c.Args[0])
	if sortOf(c.Args[1].Type()) == StrSort {
		// append([]byte, string...)
		t := e.term(st, c.Args[1])
		n := Add(SLen(s), strLen(t))
		r := Fresh("app", "Slice")
		e.addFact(st, And(Eq(SLen(r), n), Le(n, SCap(r)), Le(IntLit(0), SOff(r)), Lt(Root(SArr(r)), Add(st.ctr, IntLit(1))), Neq(SArr(r), NilLoc)))
		st.ctr = Add(st.ctr, IntLit(1))
		e.note("append([]byte, string...): element contents abstracted")
		if sl, ok := c.Args[0].Type().Underlying().(*types.Slice); ok {
			cl, so := memClass(sl.Elem())
			e.setMem(st, cl, so, e.freshMem(st, "hv_"+cl, so))
		}
		e.set(res, r)
		return
	}
	t := e.term(st, c.Args[1])
	sl := c.Args[0].Type().Underlying().(*types.Slice)
	n := Add(SLen(s), SLen(t))
	fits := Le(n, SCap(s))
	if fits != True && fits != False {
		e.branchAtoms = append(e.branchAtoms, fits)
	}
	// Appending nothing returns s unchanged.
	newArr := e.alloc(st)
	newCap := Fresh("newcap", "Int")
	e.addFact(st, Le(n, newCap))
	grown := MkSlice(newArr, IntLit(0), n, newCap)
	inplace := MkSlice(SArr(s), SOff(s), n, SCap(s))
	r := Ite(Eq(SLen(t), IntLit(0)), s, Ite(fits, inplace, grown))
	// element effects
	k, small := SLen(t).IsInt()
	if small && k.IsInt64() && k.Int64() <= 4 {
		kk := k.Int64()
		// in-place path: write the new elements after the old length
		ip := st.clone()
		for i := int64(0); i < kk; i++ {
			v := e.load(st, IdxLoc(SArr(t), Add(SOff(t), IntLit(i))), sl.Elem())
			e.store(ip, IdxLoc(SArr(s), Add(SOff(s), Add(SLen(s), IntLit(i)))), sl.Elem(), v)
		}
		// grown path: new array holds old elements then new ones (old elements by quantified copy)
		gp := st.clone()
		e.eachScalarLoc(sl.Elem(), func(sub func(l *Term) *Term, lt types.Type) {
			cl, so := memClass(lt)
			old := e.getMem(st, cl, so)
			nw := Fresh("mg_"+cl, so)
			l := BVar("l", "Loc")
			i := BVar("i", "Int")
			es := arrayElemSort(so)
			e.addFact(st, Imp(Not(fits), And(
				Forall([]*Term{l}, Imp(Neq(Root(l), Root(newArr)), Eq(App("select", es, nw, l), App("select", es, old, l)))),
				Forall([]*Term{i}, Imp(And(Le(IntLit(0), i), Lt(i, SLen(s))),
					Eq(App("select", es, nw, sub(IdxLoc(newArr, i))), App("select", es, old, sub(IdxLoc(SArr(s), Add(SOff(s), i))))))))))
			e.setMem(gp, cl, so, nw)
		})
		for i := int64(0); i < kk; i++ {
			v := e.load(st, IdxLoc(SArr(t), Add(SOff(t), IntLit(i))), sl.Elem())
			e.store(gp, IdxLoc(newArr, Add(SLen(s), IntLit(i))), sl.Elem(), v)
		}
		for _, cl := range sortedKeys(gp.mem) {
			so := e.classes[cl]
			a, b := e.getMem(ip, cl, so), e.getMem(gp, cl, so)
			if a != b || a != e.getMem(st, cl, so) {
				e.setMem(st, cl, so, Ite(fits, a, b))
			}
		}
		for _, cl := range sortedKeys(ip.mem) {
			so := e.classes[cl]
			a, b := e.getMem(ip, cl, so), e.getMem(gp, cl, so)
			if a != b {
				e.setMem(st, cl, so, Ite(fits, a, b))
			}
		}
	} else {
		// append(s, t...) with t of any length: the new memory is described by quantified facts.
		// Nothing to append: unchanged. Fits: the elements of t (read before the call -- append moves
		// overlapping data as memmove does) land behind s in s's array, the rest of that array is
		// unchanged. Grows: a new array holds s's elements and then t's; nothing else changes.
		// (Locations that share the root of the target array but are not elements of it are left
		// unconstrained: weaker, never wrong.)
		empty := Eq(SLen(t), IntLit(0))
		e.eachScalarLocChain(sl.Elem(), func(sub func(l *Term) *Term, chain []int, lt types.Type) {
			cl, so := memClass(lt)
			old := e.getMem(st, cl, so)
			nw := Fresh("ma_"+cl, so)
			l := BVar("l", "Loc")
			i := BVar("i", "Int")
			j := BVar("j", "Int")
			es := arrayElemSort(so)
			sel := func(m, loc *Term) *Term { return App("select", es, m, loc) }
			base := Add(SOff(s), SLen(s))
			e.addFact(st, Imp(empty, Forall([]*Term{l}, Eq(sel(nw, l), sel(old, l)))))
			// fits: exactly the leaves of the elements base .. base+len(t)-1 of s's array change
			isElem, ix := elemLeafOf(l, SArr(s), chain)
			e.addFact(st, Imp(And(Not(empty), fits), And(
				Forall([]*Term{l}, Imp(Not(And(isElem, Le(base, ix), Lt(ix, Add(base, SLen(t))))), Eq(sel(nw, l), sel(old, l)))),
				Forall([]*Term{j}, Imp(And(Le(IntLit(0), j), Lt(j, SLen(t))),
					Eq(sel(nw, sub(IdxLoc(SArr(s), Add(base, j)))), sel(old, sub(IdxLoc(SArr(t), Add(SOff(t), j))))))))))
			// grows: only the new array is written
			e.addFact(st, Imp(And(Not(empty), Not(fits)), And(
				Forall([]*Term{l}, Imp(Neq(Root(l), Root(newArr)), Eq(sel(nw, l), sel(old, l)))),
				Forall([]*Term{i}, Imp(And(Le(IntLit(0), i), Lt(i, SLen(s))),
					Eq(sel(nw, sub(IdxLoc(newArr, i))), sel(old, sub(IdxLoc(SArr(s), Add(SOff(s), i))))))),
				Forall([]*Term{j}, Imp(And(Le(IntLit(0), j), Lt(j, SLen(t))),
					Eq(sel(nw, sub(IdxLoc(newArr, Add(SLen(s), j)))), sel(old, sub(IdxLoc(SArr(t), Add(SOff(t), j))))))))))
			e.setMem(st, cl, so, nw)
		})
	}
	e.set(res, r)
}

// eachScalarLoc enumerates scalar leaves of an element type together with the function that
// maps an element location to the leaf location.
func (e *FnExec) eachScalarLoc(t types.Type, f func(sub func(l *Term) *Term, lt types.Type)) {
	e.eachScalarLocChain(t, func(sub func(l *Term) *Term, _ []int, lt types.Type) { f(sub, lt) })
}

// eachScalarLocChain also passes the chain of field ids from the element to the leaf.
func (e *FnExec) eachScalarLocChain(t types.Type, f func(sub func(l *Term) *Term, chain []int, lt types.Type)) {
	var rec func(t types.Type, sub func(l *Term) *Term, chain []int)
	rec = func(t types.Type, sub func(l *Term) *Term, chain []int) {
		t = types.Unalias(t)
		if si := structOf(t); si != nil {
			for i := 0; i < si.typ.NumFields(); i++ {
				fid := si.fids[i]
				rec(si.typ.Field(i).Type(), func(l *Term) *Term { return FldLoc(sub(l), fid) }, append(append([]int{}, chain...), fid))
			}
			return
		}
		if _, ok := t.Underlying().(*types.Array); ok {
			return // arrays inside elements: not modelled by copy
		}
		f(sub, chain, t)
	}
	rec(t, func(l *Term) *Term { return l }, nil)
}

func (e *FnExec) copyBuiltin(st *State, c *ssa.CallCommon, res ssa.Value) {
	dst := e.term(st, c.Args[0])
	sl := c.Args[0].Type().Underlying().(*types.Slice)
	var n *Term
	if sortOf(c.Args[1].Type()) == StrSort {
		src := e.term(st, c.Args[1])
		n = Ite(Le(SLen(dst), strLen(src)), SLen(dst), strLen(src))
		cl, so := memClass(sl.Elem())
		e.setMem(st, cl, so, e.freshMem(st, "hv_"+cl, so))
		e.note("copy([]byte, string): element contents abstracted")
	} else {
		src := e.term(st, c.Args[1])
		n = Ite(Le(SLen(dst), SLen(src)), SLen(dst), SLen(src))
		e.eachScalarLoc(sl.Elem(), func(sub func(l *Term) *Term, lt types.Type) {
			cl, so := memClass(lt)
			old := e.getMem(st, cl, so)
			nw := Fresh("mc_"+cl, so)
			es := arrayElemSort(so)
			i := BVar("i", "Int")
			l := BVar("l", "Loc")
			dloc := func(i *Term) *Term { return sub(IdxLoc(SArr(dst), Add(SOff(dst), i))) }
			sloc := func(i *Term) *Term { return sub(IdxLoc(SArr(src), Add(SOff(src), i))) }
			// copied range
			e.addFact(st, Forall([]*Term{i}, Imp(And(Le(IntLit(0), i), Lt(i, n)), Eq(App("select", es, nw, dloc(i)), App("select", es, old, sloc(i))))))
			// everything else unchanged: other objects, and cells of dst's array outside the range
			var subf []int
			probe := sub(BVar("probe", "Loc"))
			for pp := PathOf(probe); pp.Op == "app" && pp.Name == "pfld"; pp = pp.Args[0] {
				if c, ok := pp.Args[1].IsInt(); ok {
					subf = append([]int{int(c.Int64())}, subf...)
				}
			}
			isEl, _ := elemLeafOf(l, SArr(dst), subf)
			e.addFact(st, Forall([]*Term{l}, Imp(Not(isEl), Eq(App("select", es, nw, l), App("select", es, old, l)))))
			e.addFact(st, Forall([]*Term{i}, Imp(Or(Lt(i, IntLit(0)), Le(n, i)), Eq(App("select", es, nw, dloc(i)), App("select", es, old, dloc(i))))))
			e.setMem(st, cl, so, nw)
		})
	}
	if res != nil {
		e.set(res, n)
	}
}

func (e *FnExec) runDefers(st *State, x *ssa.RunDefers) {
	for i := len(st.defers) - 1; i >= 0; i-- {
		d := st.defers[i]
		guard := True
		if !d.Block().Dominates(x.Block()) {
			// conditional defer: executed only on paths through its block
			if r := e.in[d.Block()]; r != nil {
				guard = r.reach
			}
		}
		c := &d.Call
		if b, ok := c.Value.(*ssa.Builtin); ok {
			if guard == True {
				e.builtin(st, b, c, nil, d.Pos())
			} else {
				e.note("conditional deferred builtin %s: memory havocked", b.Name())
				e.havocAll(st, "deferred builtin")
			}
			continue
		}
		key, sig, _ := e.calleeKey(c)
		if key == "" {
			if mc, ok := c.Value.(*ssa.MakeClosure); ok {
				key = fnKey(mc.Fn.(*ssa.Function))
				sig = mc.Fn.(*ssa.Function).Signature
			}
		}
		con := e.P.cs.Funcs[key]
		if con == nil {
			if key != "" && e.P.effectFree(key) {
				e.assumed["effect-free (allow-list): "+key]++
				continue
			}
			e.note("deferred call to %s has no contract: all memory havocked", key)
			e.assumed["uncontracted call (havoc): deferred "+key]++
			e.havocAll(st, key)
			continue
		}
		var args []*Term
		if c.IsInvoke() {
			args = append(args, e.term(st, c.Value))
		}
		for _, a := range c.Args {
			args = append(args, e.term(st, a))
		}
		con.used++
		// called(name) sees deferred calls too (conditionally deferred: on the paths that deferred them)
		prev := map[int]*Term{}
		for _, id := range e.calledCell {
			prev[id] = st.cells[id]
		}
		e.noteCall(st, key, args, sig, c)
		if guard != True {
			for id, pv := range prev {
				if st.cells[id] != pv {
					if pv == nil {
						pv = False
					}
					st.cells[id] = Or(pv, guard)
				}
			}
		}
		e.applyContract(st, key, con, sig, c, args, nil, d.Pos(), guard)
	}
}

// sigKey: a name for a function type that ignores parameter names.
func sigKey(t types.Type) string {
	sig, ok := types.Unalias(t).Underlying().(*types.Signature)
	if !ok {
		return sanitize(typeKey(t))
	}
	var parts []string
	for i := 0; i < sig.Params().Len(); i++ {
		parts = append(parts, typeKey(sig.Params().At(i).Type()))
	}
	parts = append(parts, "->")
	for i := 0; i < sig.Results().Len(); i++ {
		parts = append(parts, typeKey(sig.Results().At(i).Type()))
	}
	return sanitize(strings.Join(parts, "_"))
}

func isLockAcquire(key string) bool {
	switch key {
	case "(*sync.Mutex).Lock", "(*sync.RWMutex).Lock", "(*sync.RWMutex).RLock":
		return true
	}
	return false
}

// lockAcquired: the function has just taken a lock. Under an `atlock modifies ...` clause the named
// (lock-protected) locations are given arbitrary new contents -- what other goroutines may have done
// while this one did not hold the lock -- and the state is remembered for atlock(e).
func (e *FnExec) lockAcquired(st *State, pos token.Pos) {
	if e.con == nil || len(e.con.AtLock) == 0 {
		return
	}
	env := e.specEnv(st, pos)
	var items []locItem
	for _, m := range e.con.AtLock {
		its, err := env.modItems(m)
		if err != nil {
			e.errf("%v", err)
			continue
		}
		items = append(items, its...)
	}
	classes := map[string]string{}
	for _, it := range items {
		classes[it.class] = it.sort
	}
	for _, cl := range sortedKeys(classes) {
		so := classes[cl]
		old := e.getMem(st, cl, so)
		nw := e.freshMem(st, "lk_"+cl, so)
		l := BVar("l", "Loc")
		es := arrayElemSort(so)
		e.addFact(st, Forall([]*Term{l}, Imp(Not(inItems(l, cl, items)), Eq(App("select", es, nw, l), App("select", es, old, l)))))
		e.setMem(st, cl, so, nw)
	}
	e.assumed["interference at lock acquisition (atlock clause): the named locations are arbitrary after Lock/RLock"]++
	snap := st.clone()
	snap.lockSnap = nil
	st.lockSnap = snap
}
