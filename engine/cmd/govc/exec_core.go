package main

// Symbolic execution of one go/ssa function (naive form) over the acyclic CFG obtained by
// cutting loops at their headers; states are merged with ite at joins, so the size of the
// verification conditions is polynomial in the size of the function.

import (
	"fmt"
	"go/ast"
	"go/token"
	"go/types"
	"os"
	"sort"
	"strings"

	"golang.org/x/tools/go/ssa"
)

type Val struct {
	T     *Term
	Tuple []Val
	LP    *LocalPtr
}

type pstep struct {
	field int   // struct field index, or -1 for an array index
	idx   *Term // array index
	typ   types.Type
}

type LocalPtr struct {
	cell int
	path []pstep
}

type State struct {
	reach  *Term
	cells  map[int]*Term
	mem    map[string]*Term
	epoch  int
	ctr    *Term
	defers []*ssa.Defer
	dead   bool
	recMem map[string]*Term // non-nil while a recursive spec body is translated: memory classes are parameters
	// lockSnap: the state right after the most recent lock acquisition on this path (nil: none yet,
	// the entry state stands in); read by atlock(e) in specifications
	lockSnap *State
}

func (s *State) clone() *State {
	n := &State{reach: s.reach, cells: make(map[int]*Term, len(s.cells)), mem: make(map[string]*Term, len(s.mem)), epoch: s.epoch, ctr: s.ctr}
	for k, v := range s.cells {
		n.cells[k] = v
	}
	for k, v := range s.mem {
		n.mem[k] = v
	}
	n.defers = append([]*ssa.Defer{}, s.defers...)
	n.lockSnap = s.lockSnap
	return n
}

type NamedTerm struct {
	Name string
	T    *Term
	Type string
}

type Obligation struct {
	Name       string
	Kind       string
	Func       string
	Goal       *Term
	Guard      *Term
	NFacts     int
	Block      int
	exec       *FnExec
	Pos        token.Position
	Clause     string
	Cover      bool // reachability check: expected SAT
	retryB     bool // stage B ran out of time (as opposed to: its instances were not enough)
	Lemma      bool
	ExtraAs    []*Term
	PkgPath    string
	Script     string
	Scripts    []string // case split: the obligation holds iff every case is unsat
	ScriptsG   []string
	ScriptG    string // same query with the remaining quantified assumptions dropped
	ScriptsU   []string
	ScriptU    string // reachability probes: the fully instantiated quantifier-free query (contradiction search)
	groundPass bool
	ScriptA    string // stage A: no quantified assumptions, no instances
	ScriptB    string // stage B: goal-directed instances only, quantified assumptions dropped
	split      int
	// results
	Result string // unsat / sat / unknown / timeout / trivial
	Solver string
	Ms     int64
	Model  map[string]string
	RawOut string
	Inputs []NamedTerm
}

type loopInfo struct {
	header  *ssa.BasicBlock
	blocks  map[*ssa.BasicBlock]bool
	ordinal int
	stmt    ast.Node
	spec    *LoopSpec
	before  *State
	head    *State // state at the start of an iteration (after the havoc, invariants assumed)
	inScope token.Pos
	decr0   *Term
	items   []locItem // declared loop frame (nil: whole classes are havocked)
	framed  bool
}

type FnExec struct {
	P                *Prog
	fn               *ssa.Function
	key              string
	con              *Contract
	vals             map[ssa.Value]Val
	facts            []*Term
	obls             []*Obligation
	cellOf           map[ssa.Value]int
	cellType         map[int]types.Type
	cellName         map[int]string
	ncell            int
	in, out          map[*ssa.BasicBlock]*State
	edge             map[[2]int]*Term
	loops            map[*ssa.BasicBlock]*loopInfo
	order            []*ssa.BasicBlock
	kindN            map[string]int
	inputs           []NamedTerm
	ledger           []string
	entry            *State
	classes          map[string]string // class name -> sort
	varAddr          map[types.Object][]ssa.Value
	nonNil           map[int]*ssa.BasicBlock
	curBlock         *ssa.BasicBlock
	params           map[string]Val
	paramTy          map[string]types.Type
	retStates        []*State
	errs             []string
	ghost            map[string]*Term
	assumed          map[string]int
	iterSeen         map[ssa.Value]string
	closures         map[*Term]*ssa.MakeClosure
	iterCells        map[*ssa.Range]int
	iterSort         map[int]string
	allocs           []*ssa.Alloc
	wfDone           map[string]bool
	epochCtr         map[int]*Term
	branchAtoms      []*Term
	factBlock        []int
	reachMemo        map[[2]int]bool
	storePos         token.Pos
	nLookups         int
	guardN           map[string]int
	guardSeen        map[string]bool
	callResults      map[string]specVar
	callArgs         map[string][]specVar
	calledCell       map[string]int
	calledWith       []*calledWithGhost
	ensSkipped       map[*Clause]string
	ensOK            map[*Clause]bool
	guardOrd         map[ssa.Instruction]int
	panickingVar     *Term
	recoveredCell    int
	constGlobalsUsed []*constGlobal
	curClosure       *ssa.MakeClosure
	entryFacts       int
}

func (e *FnExec) note(f string, a ...interface{}) {
	s := fmt.Sprintf(f, a...)
	for _, o := range e.ledger {
		if o == s {
			return
		}
	}
	e.ledger = append(e.ledger, s)
}

func (e *FnExec) errf(f string, a ...interface{}) {
	s := fmt.Sprintf(f, a...)
	for _, o := range e.errs {
		if o == s {
			return
		}
	}
	e.errs = append(e.errs, s)
}

func (e *FnExec) addFact(st *State, f *Term) {
	if f == nil || f == True {
		return
	}
	e.facts = append(e.facts, Imp(st.reach, skolemizeExists(f)))
	for len(e.factBlock) < len(e.facts)-1 {
		e.factBlock = append(e.factBlock, -1)
	}
	bi := -1
	if e.curBlock != nil {
		bi = e.curBlock.Index
	}
	e.factBlock = append(e.factBlock, bi)
}

// canReach: block a is b or an ancestor of b in the CFG with back edges removed.
func (e *FnExec) canReach(a, b int) bool {
	if a < 0 || b < 0 || a == b {
		return true
	}
	if e.reachMemo == nil {
		e.reachMemo = map[[2]int]bool{}
	}
	if v, ok := e.reachMemo[[2]int{a, b}]; ok {
		return v
	}
	// DFS backwards from b
	seen := map[int]bool{}
	var dfs func(x *ssa.BasicBlock) bool
	dfs = func(x *ssa.BasicBlock) bool {
		if x.Index == a {
			return true
		}
		if seen[x.Index] {
			return false
		}
		seen[x.Index] = true
		for _, p := range x.Preds {
			if x.Dominates(p) {
				continue
			}
			if dfs(p) {
				return true
			}
		}
		return false
	}
	r := dfs(e.fn.Blocks[b])
	e.reachMemo[[2]int{a, b}] = r
	return r
}

func (e *FnExec) pos(p token.Pos) token.Position {
	if p == token.NoPos {
		return token.Position{}
	}
	return e.P.fset.Position(p)
}

// assert records a proof obligation and then assumes it. Top-level conjunctions are split into
// one obligation per conjunct (smaller queries, more precise failure names).
func (e *FnExec) assert(st *State, kind string, goal *Term, pos token.Pos, clause string, label string) {
	e.kindN[kind]++
	base := fmt.Sprintf("%s:%s#%d", e.key, kind, e.kindN[kind])
	sk := skolemize(goal)
	parts := []*Term{sk}
	if sk.Op == "app" && sk.Name == "and" {
		parts = sk.Args
	} else if sk.Op == "app" && sk.Name == "=>" && sk.Args[1].Op == "app" && sk.Args[1].Name == "and" {
		parts = nil
		for _, c := range sk.Args[1].Args {
			parts = append(parts, Imp(sk.Args[0], c))
		}
	}
	for i, g := range parts {
		name := base
		if len(parts) > 1 {
			name = fmt.Sprintf("%s.%d", base, i+1)
		}
		if label != "" {
			name += ":" + label
		}
		o := &Obligation{Name: name, Kind: kind, Func: e.key, Goal: g, Guard: st.reach, NFacts: len(e.facts), exec: e, Pos: e.pos(pos), Clause: clause, Inputs: e.inputs, Block: -1}
		if e.curBlock != nil {
			o.Block = e.curBlock.Index
		}
		if g == True {
			o.Result = "trivial"
			o.Inputs = nil
		}
		e.obls = append(e.obls, o)
	}
	e.addFact(st, goal)
}

// ---- memory ----

func (e *FnExec) memVar(class, sort string, epoch int) *Term {
	e.classes[class] = sort
	name := fmt.Sprintf("%s@%d", class, epoch)
	v := Var(name, sort)
	if !e.wfDone[name] {
		e.wfDone[name] = true
		ctr := e.epochCtr[epoch]
		if ctr == nil {
			ctr = Var("ctr@0", "Int")
		}
		if f := wfMemFact(v, sort, ctr); f != nil {
			e.facts = append(e.facts, f)
		}
	}
	return v
}

// wfMemFact: memory only holds references to objects that are already allocated.
func wfMemFact(arr *Term, sort string, ctr *Term) *Term {
	es := arrayElemSort(sort)
	l := BVar("wl", "Loc")
	sel := App("select", es, arr, l)
	// only locations inside allocated objects are constrained: cells of objects that do not
	// exist yet are unconstrained (their contents are fixed later by the allocating code)
	alloc := Lt(App("root", "Int", l), ctr)
	switch {
	case es == "Loc":
		return Forall([]*Term{l}, Imp(alloc, Lt(App("root", "Int", sel), ctr)))
	case es == "Slice":
		return Forall([]*Term{l}, Imp(alloc, And(Lt(App("root", "Int", App("sarr", "Loc", sel)), ctr), Le(IntLit(0), App("slen", "Int", sel)),
			Le(App("slen", "Int", sel), App("scap", "Int", sel)), Le(IntLit(0), App("soff", "Int", sel)), Le(App("scap", "Int", sel), BigLit(pow2(46))))))
	case strings.HasPrefix(es, "(Array ") && arrayElemSort(es) == "Loc":
		ks := es[len("(Array ") : len(es)-len(" Loc)")]
		k := BVar("wk", ks)
		return Forall([]*Term{l, k}, Imp(alloc, Lt(App("root", "Int", App("select", "Loc", sel, k)), ctr)))
	}
	return nil
}

// freshMem creates an unconstrained memory array that still satisfies wfMemFact.
func (e *FnExec) freshMem(st *State, prefix, sort string) *Term {
	v := Fresh(prefix, sort)
	if f := wfMemFact(v, sort, st.ctr); f != nil {
		e.addFact(st, f)
	}
	return v
}

func (e *FnExec) getMem(st *State, class, sort string) *Term {
	if st.recMem != nil {
		if m, ok := st.recMem[class]; ok {
			return m
		}
		m := BVar("m!"+sanitize(class), sort)
		st.recMem[class] = m
		return m
	}
	if m, ok := st.mem[class]; ok {
		return m
	}
	return e.memVar(class, sort, st.epoch)
}

func (e *FnExec) setMem(st *State, class, sort string, v *Term) {
	e.classes[class] = sort
	st.mem[class] = v
}

func (e *FnExec) havocAll(st *State, why string) {
	e.P.epochs++
	st.epoch = e.P.epochs
	st.mem = map[string]*Term{}
	nc := Fresh("ctr", "Int")
	e.addFact(st, Le(st.ctr, nc))
	st.ctr = nc
	e.epochCtr[st.epoch] = nc
	e.constGlobalFacts(st)
}

// load reads a value of Go type t at location loc.
func (e *FnExec) load(st *State, loc *Term, t types.Type) *Term {
	t = types.Unalias(t)
	if si := structOf(t); si != nil {
		args := make([]*Term, len(si.fields))
		for i := range args {
			args[i] = e.load(st, FldLoc(loc, si.fids[i]), si.typ.Field(i).Type())
		}
		return si.Mk(args...)
	}
	if a, ok := t.Underlying().(*types.Array); ok {
		arr := ConstArray(sortOf(t), zeroOf(a.Elem()))
		if a.Len() > 16 {
			e.note("load of array %s longer than 16: contents abstracted", typeKey(t))
			return Fresh("arr", sortOf(t))
		}
		var r *Term = arr
		for i := int64(0); i < a.Len(); i++ {
			r = Store(r, IntLit(i), e.load(st, IdxLoc(loc, IntLit(i)), a.Elem()))
		}
		return r
	}
	class, sort := memClass(t)
	return Select(e.getMem(st, class, sort), loc)
}

func (e *FnExec) store(st *State, loc *Term, t types.Type, v *Term) {
	t = types.Unalias(t)
	if si := structOf(t); si != nil {
		for i := range si.fields {
			e.store(st, FldLoc(loc, si.fids[i]), si.typ.Field(i).Type(), si.Get(v, i))
		}
		return
	}
	if a, ok := t.Underlying().(*types.Array); ok {
		if a.Len() > 16 {
			e.note("store of array %s longer than 16: abstracted (elements havocked)", typeKey(t))
			class, sort := memClass(a.Elem())
			e.setMem(st, class, sort, Fresh("hv", sort))
			return
		}
		for i := int64(0); i < a.Len(); i++ {
			e.store(st, IdxLoc(loc, IntLit(i)), a.Elem(), Select(v, IntLit(i)))
		}
		return
	}
	class, sort := memClass(t)
	if v.Sort != arrayElemSort(sort) {
		panic(fmt.Sprintf("store: class %s sort %s value sort %s (%s)", class, sort, v.Sort, v))
	}
	if e.storePos != token.NoPos {
		e.checkLoopFrames(st, class, loc, e.storePos)
	}
	e.setMem(st, class, sort, Store(e.getMem(st, class, sort), loc, v))
}

// checkLoopFrames: a store to (class, loc) inside a loop with a declared frame must stay inside it.
func (e *FnExec) checkLoopFrames(st *State, class string, loc *Term, pos token.Pos) {
	for _, li := range e.sortedLoops() {
		if li.framed && li.blocks[e.curBlock] {
			// objects allocated after the loop was entered are always inside the frame
			e.assert(st, "loop-frame", Or(inItems(loc, class, li.items), Le(li.before.ctr, Root(loc))), pos, fmt.Sprintf("store stays inside the frame declared for loop %d", li.ordinal), fmt.Sprintf("loop%d", li.ordinal))
		}
	}
}

// map classes
func mapClasses(m *types.Map) (dom, dsort, val, vsort string) {
	ks, vs := sortOf(m.Key()), sortOf(m.Elem())
	kk := strings.ReplaceAll(typeKey(m.Key()), "github.com/influxdata/kapacitor", "")
	vk := strings.ReplaceAll(typeKey(m.Elem()), "github.com/influxdata/kapacitor", "")
	if vs == "Loc" || vs == "Iface" || vs == "Int" && false {
		vk = vs
	}
	dom = "D|" + kk + "|" + vk
	dsort = arraySort("Loc", arraySort(ks, "Bool"))
	val = "V|" + kk + "|" + vk
	vsort = arraySort("Loc", arraySort(ks, vs))
	return
}

const mapLenClass = "L|maplen"

var mapLenSort = arraySort("Loc", "Int")

// ---- local cells ----

func (e *FnExec) readLP(st *State, lp *LocalPtr) *Term {
	t := st.cells[lp.cell]
	if t == nil {
		t = zeroOf(e.cellType[lp.cell])
	}
	for _, s := range lp.path {
		if s.field >= 0 {
			t = structOf(s.typ).Get(t, s.field)
		} else {
			t = Select(t, s.idx)
		}
	}
	return t
}

func (e *FnExec) writeLP(st *State, lp *LocalPtr, v *Term) {
	root := st.cells[lp.cell]
	if root == nil {
		root = zeroOf(e.cellType[lp.cell])
	}
	var upd func(cur *Term, path []pstep) *Term
	upd = func(cur *Term, path []pstep) *Term {
		if len(path) == 0 {
			return v
		}
		s := path[0]
		if s.field >= 0 {
			si := structOf(s.typ)
			return si.Set(cur, s.field, upd(si.Get(cur, s.field), path[1:]))
		}
		return Store(cur, s.idx, upd(Select(cur, s.idx), path[1:]))
	}
	nv := upd(root, lp.path)
	if want := sortOf(e.cellType[lp.cell]); nv.Sort != want {
		panic(fmt.Sprintf("writeLP: cell %s sort %s got %s", e.cellName[lp.cell], want, nv.Sort))
	}
	st.cells[lp.cell] = nv
}

// ---- merging ----

func (e *FnExec) merge(ins []*State, conds []*Term) *State {
	if len(ins) == 1 {
		s := ins[0].clone()
		s.reach = conds[0]
		return s
	}
	out := &State{cells: map[int]*Term{}, mem: map[string]*Term{}}
	out.reach = Or(conds...)
	sameEpoch := true
	mergedEpoch := false
	for _, s := range ins[1:] {
		if s.epoch != ins[0].epoch {
			sameEpoch = false
		}
	}
	pick := func(get func(s *State) *Term) *Term {
		r := get(ins[len(ins)-1])
		for i := len(ins) - 2; i >= 0; i-- {
			r = Ite(conds[i], get(ins[i]), r)
		}
		return r
	}
	cellKeys := map[int]bool{}
	for _, s := range ins {
		for k := range s.cells {
			cellKeys[k] = true
		}
	}
	cellOrder := make([]int, 0, len(cellKeys))
	for k := range cellKeys {
		cellOrder = append(cellOrder, k)
	}
	sort.Ints(cellOrder)
	for _, k := range cellOrder {
		k := k
		var dflt *Term
		for _, s := range ins {
			if v, ok := s.cells[k]; ok {
				dflt = v
			}
		}
		out.cells[k] = pick(func(s *State) *Term {
			if v, ok := s.cells[k]; ok {
				return v
			}
			return dflt
		})
	}
	classKeys := map[string]bool{}
	for _, s := range ins {
		for k := range s.mem {
			classKeys[k] = true
		}
	}
	if sameEpoch {
		out.epoch = ins[0].epoch
	} else {
		for k := range e.classes {
			classKeys[k] = true
		}
		e.P.epochs++
		out.epoch = e.P.epochs
		mergedEpoch = true
	}
	for _, k := range sortedKeys(classKeys) {
		k := k
		out.mem[k] = pick(func(s *State) *Term { return e.getMem(s, k, e.classes[k]) })
	}
	out.ctr = pick(func(s *State) *Term { return s.ctr })
	if mergedEpoch {
		e.epochCtr[out.epoch] = out.ctr
	}
	seen := map[*ssa.Defer]bool{}
	for _, s := range ins {
		for _, d := range s.defers {
			if !seen[d] {
				seen[d] = true
				out.defers = append(out.defers, d)
			}
		}
	}
	// the lock snapshots merge like the states themselves
	sameSnap := true
	for _, s := range ins[1:] {
		if s.lockSnap != ins[0].lockSnap {
			sameSnap = false
		}
	}
	if sameSnap {
		out.lockSnap = ins[0].lockSnap
	} else {
		snaps := make([]*State, len(ins))
		for i, s := range ins {
			snaps[i] = s.lockSnap
			if snaps[i] == nil {
				snaps[i] = e.entry
			}
		}
		out.lockSnap = e.merge(snaps, conds)
	}
	return out
}

// ---- CFG analysis ----

func (e *FnExec) analyzeCFG() {
	fn := e.fn
	isBack := func(from, to *ssa.BasicBlock) bool { return to.Dominates(from) }
	// loops
	for _, b := range fn.Blocks {
		for _, s := range b.Succs {
			if isBack(b, s) {
				li := e.loops[s]
				if li == nil {
					li = &loopInfo{header: s, blocks: map[*ssa.BasicBlock]bool{s: true}}
					e.loops[s] = li
				}
				// natural loop
				work := []*ssa.BasicBlock{b}
				for len(work) > 0 {
					x := work[len(work)-1]
					work = work[:len(work)-1]
					if li.blocks[x] {
						continue
					}
					li.blocks[x] = true
					work = append(work, x.Preds...)
				}
			}
		}
	}
	// topological order (ignore back edges)
	visited := map[*ssa.BasicBlock]bool{}
	var post []*ssa.BasicBlock
	var dfs func(b *ssa.BasicBlock)
	dfs = func(b *ssa.BasicBlock) {
		visited[b] = true
		for _, s := range b.Succs {
			if !visited[s] && !isBack(b, s) {
				dfs(s)
			}
		}
		post = append(post, b)
	}
	if len(fn.Blocks) > 0 {
		dfs(fn.Blocks[0])
	}
	for i := len(post) - 1; i >= 0; i-- {
		e.order = append(e.order, post[i])
	}
	// map loop headers to source loops, by order
	var headers []*ssa.BasicBlock
	for h := range e.loops {
		headers = append(headers, h)
	}
	sort.Slice(headers, func(i, j int) bool { return headers[i].Index < headers[j].Index })
	var stmts []ast.Node
	if syn := fn.Syntax(); syn != nil {
		var body *ast.BlockStmt
		switch s := syn.(type) {
		case *ast.FuncDecl:
			body = s.Body
		case *ast.FuncLit:
			body = s.Body
		}
		if body != nil {
			ast.Inspect(body, func(n ast.Node) bool {
				switch n.(type) {
				case *ast.FuncLit:
					return false
				case *ast.ForStmt, *ast.RangeStmt:
					stmts = append(stmts, n)
				}
				return true
			})
		}
	}
	// assign by source position: a header belongs to the innermost loop statement containing
	// the position of its first positioned instruction; fall back to ordinal order.
	if len(stmts) == len(headers) {
		for i, h := range headers {
			li := e.loops[h]
			li.ordinal = i + 1
			li.stmt = stmts[i]
		}
	} else {
		for i, h := range headers {
			e.loops[h].ordinal = i + 1
		}
		if len(headers) > 0 {
			e.note("loop headers (%d) do not match source loop statements (%d): invariants keyed by header order only", len(headers), len(stmts))
		}
	}
	for _, li := range e.sortedLoops() {
		switch s := li.stmt.(type) {
		case *ast.ForStmt:
			li.inScope = s.Body.Lbrace + 1
		case *ast.RangeStmt:
			li.inScope = s.Body.Lbrace + 1
		}
		if e.con != nil {
			li.spec = e.con.Loops[li.ordinal]
		}
	}
}

// findCells classifies Allocs into register cells (never escaping, accessed only by direct
// loads/stores/field/index addressing, possibly through the go1.22 per-iteration phi pattern)
// and memory-resident objects.
func (e *FnExec) findCells() {
	fn := e.fn
	parent := map[ssa.Value]ssa.Value{}
	var find func(v ssa.Value) ssa.Value
	find = func(v ssa.Value) ssa.Value {
		if p, ok := parent[v]; ok && p != v {
			r := find(p)
			parent[v] = r
			return r
		}
		return v
	}
	bad := map[ssa.Value]bool{}
	var addrOnly func(v ssa.Value, root ssa.Value, seen map[ssa.Value]bool) bool
	addrOnly = func(v ssa.Value, root ssa.Value, seen map[ssa.Value]bool) bool {
		if seen[v] {
			return true
		}
		seen[v] = true
		refs := v.Referrers()
		if refs == nil {
			return false
		}
		for _, r := range *refs {
			switch r := r.(type) {
			case *ssa.UnOp:
				if r.Op != token.MUL {
					return false
				}
			case *ssa.Store:
				if r.Val == v {
					return false
				}
			case *ssa.FieldAddr:
				if !addrOnly(r, root, seen) {
					return false
				}
			case *ssa.IndexAddr:
				if r.X != v || !addrOnly(r, root, seen) {
					return false
				}
			case *ssa.DebugRef:
			case *ssa.Phi:
				// allowed only at top level (v is an Alloc or Phi of Allocs)
				if v != root && !isAllocOrPhi(v) {
					return false
				}
				if !isAllocOrPhi(v) {
					return false
				}
				for _, ed := range r.Edges {
					if !isAllocOrPhi(ed) {
						return false
					}
				}
				parent[find(v)] = find(r)
				if !addrOnly(r, root, seen) {
					return false
				}
			default:
				return false
			}
		}
		return true
	}
	var allocs []*ssa.Alloc
	for _, b := range fn.Blocks {
		for _, ins := range b.Instrs {
			if a, ok := ins.(*ssa.Alloc); ok {
				allocs = append(allocs, a)
			}
		}
	}
	for _, a := range allocs {
		if a.Heap || !addrOnly(a, a, map[ssa.Value]bool{}) {
			bad[a] = true
		}
	}
	// a group is bad if any member is bad
	badRoot := map[ssa.Value]bool{}
	for _, a := range allocs {
		if bad[a] {
			badRoot[find(a)] = true
		}
	}
	ids := map[ssa.Value]int{}
	for _, a := range allocs {
		r := find(a)
		if badRoot[r] {
			continue
		}
		id, ok := ids[r]
		if !ok {
			e.ncell++
			id = e.ncell
			ids[r] = id
			e.cellType[id] = a.Type().(*types.Pointer).Elem()
			e.cellName[id] = a.Comment
		}
		e.cellOf[a] = id
	}
	// phis that belong to a good group
	for _, b := range fn.Blocks {
		for _, ins := range b.Instrs {
			if p, ok := ins.(*ssa.Phi); ok {
				if _, isPtr := p.Type().(*types.Pointer); isPtr {
					if id, ok := ids[find(p)]; ok && !badRoot[find(p)] {
						e.cellOf[p] = id
					}
				}
			}
		}
	}
	// variable -> address values: go/ssa gives the Alloc of a named local the position and
	// name of the variable's declaring identifier
	e.allocs = allocs
}

func (e *FnExec) addrsOfVar(v *types.Var) []ssa.Value {
	if as, ok := e.varAddr[v]; ok {
		return as
	}
	var out []ssa.Value
	for _, a := range e.allocs {
		if a.Comment == v.Name() && a.Pos() == v.Pos() {
			out = append(out, a)
		}
	}
	e.varAddr[v] = out
	return out
}

func isAllocOrPhi(v ssa.Value) bool {
	switch v.(type) {
	case *ssa.Alloc, *ssa.Phi:
		return true
	}
	return false
}

// loopModifies computes the cells and memory classes assigned inside a loop.
func (e *FnExec) loopModifies(li *loopInfo) (cells map[int]bool, classes map[string]string, all bool, allocs bool) {
	cells = map[int]bool{}
	classes = map[string]string{}
	var rootCell func(v ssa.Value) (int, bool)
	rootCell = func(v ssa.Value) (int, bool) {
		switch x := v.(type) {
		case *ssa.Alloc, *ssa.Phi:
			id, ok := e.cellOf[x]
			return id, ok
		case *ssa.FieldAddr:
			return rootCell(x.X)
		case *ssa.IndexAddr:
			return rootCell(x.X)
		}
		return 0, false
	}
	var addType func(t types.Type)
	addType = func(t types.Type) {
		t = types.Unalias(t)
		if si := structOf(t); si != nil {
			for i := 0; i < si.typ.NumFields(); i++ {
				addType(si.typ.Field(i).Type())
			}
			return
		}
		if a, ok := t.Underlying().(*types.Array); ok {
			addType(a.Elem())
			return
		}
		c, s := memClass(t)
		classes[c] = s
	}
	for b := range li.blocks {
		for _, ins := range b.Instrs {
			switch x := ins.(type) {
			case *ssa.Store:
				if id, ok := rootCell(x.Addr); ok {
					cells[id] = true
				} else {
					addType(x.Val.Type())
				}
			case *ssa.Alloc:
				if id, ok := e.cellOf[x]; ok {
					cells[id] = true
				} else {
					allocs = true
					addType(x.Type().(*types.Pointer).Elem())
				}
			case *ssa.MapUpdate:
				if m, ok := x.Map.Type().Underlying().(*types.Map); ok {
					d, ds, v, vs := mapClasses(m)
					classes[d], classes[v], classes[mapLenClass] = ds, vs, mapLenSort
				}
			case *ssa.MakeSlice, *ssa.MakeMap, *ssa.MakeChan, *ssa.MakeInterface, *ssa.MakeClosure:
				allocs = true
				if mm, ok := x.(*ssa.MakeMap); ok {
					if m, ok := mm.Type().Underlying().(*types.Map); ok {
						d, ds, v, vs := mapClasses(m)
						classes[d], classes[v], classes[mapLenClass] = ds, vs, mapLenSort
					}
				}
				if ms, ok := x.(*ssa.MakeSlice); ok {
					addType(ms.Type().Underlying().(*types.Slice).Elem())
				}
			case ssa.CallInstruction:
				allocs = true
				cm := e.callModifies(x.Common())
				if cm == nil {
					all = true
					if os.Getenv("GOVC_DEBUG_LOOP") != "" {
						fmt.Fprintf(os.Stderr, "loop %d of %s: call without known frame: %s\n", li.ordinal, e.key, x.Common().String())
					}
				} else {
					for c, s := range cm {
						classes[c] = s
					}
				}
			case *ssa.Next:
				if rng, ok := x.Iter.(*ssa.Range); ok {
					if id, ok := e.iterCells[rng]; ok {
						cells[id] = true
					}
				}
			case *ssa.Send, *ssa.Select:
				// channel operations have no effect on modelled memory
			case *ssa.UnOp:
				if x.Op == token.ARROW {
				}
			}
		}
	}
	return
}

// ---- driver ----

func (e *FnExec) run() {
	fn := e.fn
	defer func() {
		if r := recover(); r != nil {
			if ue, ok := r.(unsupported); ok {
				e.errf("unsupported: %s", string(ue))
				return
			}
			panic(r)
		}
	}()
	e.findCells()
	e.analyzeCFG()
	st := &State{reach: True, cells: map[int]*Term{}, mem: map[string]*Term{}, epoch: 0}
	st.ctr = Var("ctr@0", "Int")
	e.facts = append(e.facts, Lt(IntLit(0), st.ctr))
	e.entry = st.clone()
	e.initCalledGhosts(st)
	e.initCallArgGhosts()
	for _, b := range fn.Blocks {
		for _, ins := range b.Instrs {
			if ci, ok := ins.(ssa.CallInstruction); ok {
				if bi, ok := ci.Common().Value.(*ssa.Builtin); ok && bi.Name() == "recover" {
					e.ensurePanicCells(st)
					st.cells[e.recoveredCell] = False
				}
			}
		}
	}
	e.bindParams(st)
	e.assumeRequires(st)
	e.constGlobalFacts(st)
	e.entryFacts = len(e.facts)
	e.in[fn.Blocks[0]] = st
	for _, b := range e.order {
		e.execBlock(b)
	}
	for c, msg := range e.ensSkipped {
		if !e.ensOK[c] {
			e.errf("%s", msg)
		}
	}
}

// initCalledGhosts creates one boolean ghost cell per function name mentioned as called(name)
// in the contract; it is false on entry and set by every call to a callee with that name.
func (e *FnExec) initCalledGhosts(st *State) {
	if e.con == nil {
		return
	}
	var texts []string
	for _, c := range e.con.Ensures {
		texts = append(texts, c.Text)
	}
	for _, l := range e.con.Loops {
		for _, c := range l.Invariants {
			texts = append(texts, c.Text)
		}
	}
	for _, c := range e.con.Guards {
		texts = append(texts, c.Text)
	}
	sort.Strings(texts)
	for _, t := range texts {
		rest := t
		for {
			i := strings.Index(rest, "calledwith(")
			if i < 0 {
				break
			}
			rest = rest[i+len("calledwith("):]
			// calledwith(name, k, expr): split at the first two commas, expr runs to the matching paren
			depth, end := 1, -1
			for j := 0; j < len(rest); j++ {
				if rest[j] == '(' {
					depth++
				} else if rest[j] == ')' {
					depth--
					if depth == 0 {
						end = j
						break
					}
				}
			}
			if end < 0 {
				break
			}
			parts := strings.SplitN(rest[:end], ",", 3)
			if len(parts) != 3 {
				continue
			}
			name := strings.TrimSpace(parts[0])
			var k int
			fmt.Sscan(strings.TrimSpace(parts[1]), &k)
			expr := strings.TrimSpace(parts[2])
			key := fmt.Sprintf("%s|%d|%s", name, k, strings.Join(strings.Fields(expr), ""))
			dup := false
			for _, g := range e.calledWith {
				if g.key == key {
					dup = true
				}
			}
			if !dup {
				e.ncell++
				e.cellType[e.ncell] = types.Typ[types.Bool]
				e.cellName[e.ncell] = "calledwith!" + name
				st.cells[e.ncell] = False
				e.calledWith = append(e.calledWith, &calledWithGhost{key: key, name: name, k: k, expr: expr, cell: e.ncell})
			}
		}
	}
	for _, t := range texts {
		for {
			i := strings.Index(t, "called(")
			if i < 0 {
				break
			}
			t = t[i+len("called("):]
			j := strings.Index(t, ")")
			if j < 0 {
				break
			}
			name := strings.ReplaceAll(strings.TrimSpace(t[:j]), " ", "")
			if _, ok := e.calledCell[name]; !ok {
				e.ncell++
				e.calledCell[name] = e.ncell
				e.cellType[e.ncell] = types.Typ[types.Bool]
				e.cellName[e.ncell] = "called!" + name
				st.cells[e.ncell] = False
			}
		}
	}
}

// calledWithGhost: calledwith(name, k, expr) -- some call to `name` had its k-th argument equal to
// expr (evaluated when that call happened).
type calledWithGhost struct {
	key, name, expr string
	k, cell         int
}

type unsupported string

func (e *FnExec) unsupported(f string, a ...interface{}) {
	panic(unsupported(fmt.Sprintf(f, a...)))
}

func (e *FnExec) edgeCond(from, to *ssa.BasicBlock, succIdx int) *Term {
	if c, ok := e.edge[[2]int{from.Index*4 + succIdx, to.Index}]; ok {
		return c
	}
	return False
}

func (e *FnExec) execBlock(b *ssa.BasicBlock) {
	e.curBlock = b
	var st *State
	if b.Index == 0 {
		st = e.in[b]
	} else {
		var ins []*State
		var conds []*Term
		for _, p := range b.Preds {
			if b.Dominates(p) {
				continue // back edge
			}
			ps := e.out[p]
			if ps == nil {
				continue
			}
			for si, s := range p.Succs {
				if s == b {
					c := e.edgeCond(p, b, si)
					if c == False {
						continue
					}
					ins = append(ins, ps)
					conds = append(conds, c)
				}
			}
		}
		if len(ins) == 0 {
			// unreachable (e.g. after panic)
			st = &State{reach: False, cells: map[int]*Term{}, mem: map[string]*Term{}, ctr: e.entry.ctr, dead: true}
		} else {
			st = e.merge(ins, conds)
		}
	}
	if li := e.loops[b]; li != nil && !st.dead {
		st = e.enterLoop(li, st)
	}
	e.in[b] = st
	// phi nodes first (non-header, or header phis already handled)
	for _, ins := range b.Instrs {
		if st.dead {
			break
		}
		e.execInstr(st, ins)
	}
	e.out[b] = st
}

// phiValueOnEntry merges phi operands along non-back edges.
func (e *FnExec) phiMerge(p *ssa.Phi, back bool) *Term {
	b := p.Block()
	var r *Term
	for i := len(b.Preds) - 1; i >= 0; i-- {
		pred := b.Preds[i]
		isBack := b.Dominates(pred)
		if isBack != back {
			continue
		}
		ps := e.out[pred]
		if ps == nil {
			continue
		}
		v := e.val(ps, p.Edges[i]).T
		if v == nil {
			e.unsupported("phi of non-term value in %s", e.key)
		}
		var c *Term = False
		for si, s := range pred.Succs {
			if s == b {
				c = Or(c, e.edgeCond(pred, b, si))
			}
		}
		if r == nil {
			r = v
		} else {
			r = Ite(c, v, r)
		}
	}
	return r
}

func (e *FnExec) enterLoop(li *loopInfo, in *State) *State {
	// header phis (value phis): entry values
	hdrPhis := []*ssa.Phi{}
	for _, ins := range li.header.Instrs {
		if p, ok := ins.(*ssa.Phi); ok {
			if _, isCell := e.cellOf[p]; !isCell {
				hdrPhis = append(hdrPhis, p)
			}
		} else {
			break
		}
	}
	for _, p := range hdrPhis {
		e.vals[p] = Val{T: e.phiMerge(p, false)}
	}
	li.before = in.clone()
	// invariant holds on entry
	if li.spec != nil {
		for _, inv := range li.spec.Invariants {
			env := e.specEnv(in, li.inScope)
			env.before = li.before
			g, err := env.boolExpr(inv)
			if err != nil {
				e.errf("%v", err)
				continue
			}
			e.assert(in, "invariant-entry", g, li.header.Instrs[0].Pos(), inv.Text, fmt.Sprintf("loop%d", li.ordinal))
		}
	}
	// havoc
	st := in.clone()
	cells, classes, all, allocs := e.loopModifies(li)
	cellIDs := make([]int, 0, len(cells))
	for id := range cells {
		cellIDs = append(cellIDs, id)
	}
	sort.Ints(cellIDs)
	for _, id := range cellIDs {
		if srt, ok := e.iterSort[id]; ok {
			st.cells[id] = Fresh("lh_"+e.cellName[id], srt)
			continue
		}
		v := Fresh("lh_"+e.cellName[id], sortOf(e.cellType[id]))
		st.cells[id] = v
		e.addFact(st, e.typeFacts(e.cellType[id], v, st))
	}
	if li.spec != nil && len(li.spec.Modifies) > 0 {
		li.framed = true
		menv := e.specEnv(in, li.inScope)
		menv.before = li.before
		for _, m := range li.spec.Modifies {
			its, err := menv.modItems(m)
			if err != nil {
				e.errf("%v", err)
				continue
			}
			li.items = append(li.items, its...)
		}
	}
	if li.framed {
		// every class named in the declared frame may change (inside the frame), whether or not the
		// scan of the body could tell (a callee's frame is only known once its contract was applied)
		for _, it := range li.items {
			if _, ok := classes[it.class]; !ok {
				classes[it.class] = it.sort
			}
		}
	}
	if all && !li.framed {
		e.havocAll(st, "loop with uncontracted call")
	} else {
		classNames := make([]string, 0, len(classes))
		for c := range classes {
			classNames = append(classNames, c)
		}
		sort.Strings(classNames)
		for _, c := range classNames {
			s := classes[c]
			if li.framed {
				has := false
				for _, it := range li.items {
					if it.class == c {
						has = true
					}
				}
				if !has {
					// only objects allocated inside the loop may change in this class
					old := e.getMem(in, c, s)
					nw := e.freshMem(st, "lh_"+c, s)
					l := BVar("l", "Loc")
					es := arrayElemSort(s)
					e.addFact(st, Forall([]*Term{l}, Imp(Lt(App("root", "Int", l), in.ctr), Eq(App("select", es, nw, l), App("select", es, old, l)))))
					e.setMem(st, c, s, nw)
					continue
				}
				old := e.getMem(in, c, s)
				nw := e.freshMem(st, "lh_"+c, s)
				l := BVar("l", "Loc")
				es := arrayElemSort(s)
				e.addFact(st, Forall([]*Term{l}, Imp(And(Not(inItems(l, c, li.items)), Lt(App("root", "Int", l), in.ctr)), Eq(App("select", es, nw, l), App("select", es, old, l)))))
				e.setMem(st, c, s, nw)
				continue
			}
			e.setMem(st, c, s, e.freshMem(st, "lh_"+c, s))
		}
		if allocs {
			nc := Fresh("ctr", "Int")
			e.addFact(st, Le(st.ctr, nc))
			st.ctr = nc
		}
	}
	// implicit invariant of the range-over-slice lowering: the hidden index only counts up from -1
	for _, ins := range li.header.Instrs {
		if s, ok := ins.(*ssa.Store); ok {
			if a, ok := s.Addr.(*ssa.Alloc); ok && a.Comment == "rangeindex" {
				if id, ok := e.cellOf[a]; ok && st.cells[id] != nil {
					e.addFact(st, Le(IntLit(-1), st.cells[id]))
					// ... and stays below the length taken before the loop: the header is
					// re-entered only after `index+1 < len` let the body run
					if iff, ok := li.header.Instrs[len(li.header.Instrs)-1].(*ssa.If); ok {
						if b, ok := iff.Cond.(*ssa.BinOp); ok && b.Op == token.LSS && b.X == s.Val {
							if lv, ok := e.vals[b.Y]; ok && lv.T != nil {
								e.addFact(st, Or(Eq(st.cells[id], IntLit(-1)), Le(st.cells[id], Sub(lv.T, IntLit(1)))))
								// part of a counterexample: how long the ranged-over slice is, and where the loop stands
								e.inputs = append(e.inputs, NamedTerm{fmt.Sprintf("rangelen(loop%d)", li.ordinal), lv.T, "int"},
									NamedTerm{fmt.Sprintf("rangeindex(loop%d)", li.ordinal), Add(st.cells[id], IntLit(1)), "int"})
							}
						}
					}
				}
			}
		}
	}
	for _, p := range hdrPhis {
		v := Fresh("phi_"+p.Name(), sortOf(p.Type()))
		e.vals[p] = Val{T: v}
		e.addFact(st, e.typeFacts(p.Type(), v, st))
	}
	if li.spec != nil {
		for _, inv := range li.spec.Invariants {
			env := e.specEnv(st, li.inScope)
			env.before = li.before
			g, err := env.boolExpr(inv)
			if err != nil {
				continue
			}
			e.addFact(st, g)
		}
		if li.spec.Decreases != nil {
			env := e.specEnv(st, li.inScope)
			env.before = li.before
			d, _, err := env.termExpr(li.spec.Decreases)
			if err == nil {
				li.decr0 = d
			}
		}
	} else {
		e.note("loop %d has no invariant: loop targets havocked", li.ordinal)
	}
	li.head = st.clone()
	return st
}

// backEdge checks invariant preservation on a back edge into header h.
func (e *FnExec) backEdge(st *State, from *ssa.BasicBlock, li *loopInfo, cond *Term) {
	if li.spec == nil {
		return
	}
	bs := st.clone()
	bs.reach = cond
	// vacuity guard: some iteration must be able to complete under the assumed invariants
	e.kindN["loopreach"]++
	e.obls = append(e.obls, &Obligation{Name: fmt.Sprintf("%s:backedge-reachable#%d:loop%d", e.key, e.kindN["loopreach"], li.ordinal), Kind: "vacuity-loop", Func: e.key,
		Goal: False, Guard: cond, NFacts: len(e.facts), exec: e, Pos: e.pos(from.Instrs[len(from.Instrs)-1].Pos()), Cover: true, Block: -1})
	// temporarily bind header value-phis to their back-edge operands
	saved := map[*ssa.Phi]Val{}
	for _, ins := range li.header.Instrs {
		p, ok := ins.(*ssa.Phi)
		if !ok {
			break
		}
		if _, isCell := e.cellOf[p]; isCell {
			continue
		}
		saved[p] = e.vals[p]
		for i, pred := range li.header.Preds {
			if pred == from {
				e.vals[p] = e.val(st, p.Edges[i])
			}
		}
	}
	for _, inv := range li.spec.Invariants {
		env := e.specEnv(bs, li.inScope)
		env.before = li.before
		g, err := env.boolExpr(inv)
		if err != nil {
			e.errf("%v", err)
			continue
		}
		e.assert(bs, "invariant-preserved", g, from.Instrs[len(from.Instrs)-1].Pos(), inv.Text, fmt.Sprintf("loop%d", li.ordinal))
	}
	for _, tr := range li.spec.Transitions {
		env := e.specEnv(bs, li.inScope)
		env.before = li.before
		env.prev = li.head
		g, err := env.boolExpr(tr)
		if err != nil {
			e.errf("%v", err)
			continue
		}
		e.assert(bs, "transition", g, from.Instrs[len(from.Instrs)-1].Pos(), tr.Text, fmt.Sprintf("loop%d", li.ordinal))
	}
	if li.spec.Decreases != nil && li.decr0 != nil {
		env := e.specEnv(bs, li.inScope)
		env.before = li.before
		d, _, err := env.termExpr(li.spec.Decreases)
		if err == nil {
			e.assert(bs, "decreases", And(Lt(d, li.decr0), Le(IntLit(0), li.decr0)), from.Instrs[len(from.Instrs)-1].Pos(), li.spec.Decreases.Text, fmt.Sprintf("loop%d", li.ordinal))
		}
	}
	for p, v := range saved {
		e.vals[p] = v
	}
}

// sortedLoops returns the loops of the function in source (ordinal) order, so that the obligations and
// fresh names generated per loop do not depend on map iteration order.
func (e *FnExec) sortedLoops() []*loopInfo {
	out := make([]*loopInfo, 0, len(e.loops))
	for _, li := range e.loops {
		out = append(out, li)
	}
	sort.Slice(out, func(i, j int) bool { return out[i].header.Index < out[j].header.Index })
	return out
}
