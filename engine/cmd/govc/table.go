package main

// Table contracts: one contract schema for every function literal stored in a package-level
// composite literal (a dispatch table), instantiated per entry from the CURRENT source.
//
//	//@ table evaluationFuncs f
//	//@   let LE = select ${leftType} { ast.TInt => EvalInt ; ast.TFloat => EvalFloat }
//	//@   let L = callresult(leftNode.${LE}, 0)
//	//@   requires leftNode != nil
//	//@   ensures ...${L}...
//
// The table variable's literal is read with go/parser from the package directory of the contract
// file. For every entry whose value has a function literal in field `f` (or is one, with field
// "-"), the block is emitted as `//@ func <var>[<key fields>]` with ${name} replaced by the source
// text of the entry's key fields, of the other value fields, and of the block's `let` bindings
// (evaluated in order; `select <subject> { pattern => text ; ... }` picks the first pattern whose
// whitespace-separated tokens match the subject's, `*` matching any token). An entry that a
// select does not cover is an error: the schema has to say something about every entry.
// The entry's function is identified by the position of its `func` keyword.

import (
	"fmt"
	"go/ast"
	"go/parser"
	"go/printer"
	"go/token"
	"os"
	"path/filepath"
	"regexp"
	"sort"
	"strings"
)

type tableEntry struct {
	name string            // key text, e.g. ast.TokenPlus,ast.TInt,ast.TInt
	env  map[string]string // field -> source text
	pos  string            // file:line:col of the func keyword
}

func exprText(fset *token.FileSet, e ast.Expr) string {
	var sb strings.Builder
	printer.Fprint(&sb, fset, e)
	return strings.Join(strings.Fields(sb.String()), " ")
}

func readTable(dir, skipFile, varName, fnField string) ([]tableEntry, error) {
	fset := token.NewFileSet()
	files, _ := filepath.Glob(filepath.Join(dir, "*.go"))
	sort.Strings(files)
	for _, f := range files {
		if strings.HasSuffix(f, "_test.go") || f == skipFile {
			continue
		}
		af, err := parser.ParseFile(fset, f, nil, parser.SkipObjectResolution)
		if err != nil {
			continue
		}
		for _, d := range af.Decls {
			gd, ok := d.(*ast.GenDecl)
			if !ok || gd.Tok != token.VAR {
				continue
			}
			for _, sp := range gd.Specs {
				vs := sp.(*ast.ValueSpec)
				for i, n := range vs.Names {
					if n.Name != varName || i >= len(vs.Values) {
						continue
					}
					cl, ok := vs.Values[i].(*ast.CompositeLit)
					if !ok {
						return nil, fmt.Errorf("table %s is not a composite literal", varName)
					}
					var out []tableEntry
					for _, el := range cl.Elts {
						kv, ok := el.(*ast.KeyValueExpr)
						if !ok {
							return nil, fmt.Errorf("table %s: entry without key", varName)
						}
						ent := tableEntry{env: map[string]string{}}
						var keyParts []string
						if kc, ok := kv.Key.(*ast.CompositeLit); ok {
							for _, ke := range kc.Elts {
								if kkv, ok := ke.(*ast.KeyValueExpr); ok {
									txt := exprText(fset, kkv.Value)
									ent.env[exprText(fset, kkv.Key)] = txt
									keyParts = append(keyParts, txt)
								} else {
									keyParts = append(keyParts, exprText(fset, ke))
								}
							}
						} else {
							keyParts = append(keyParts, exprText(fset, kv.Key))
							ent.env["key"] = keyParts[0]
						}
						ent.name = strings.Join(keyParts, ",")
						val := kv.Value
						if u, ok := val.(*ast.UnaryExpr); ok && u.Op == token.AND {
							val = u.X
						}
						var fl *ast.FuncLit
						if fnField == "-" {
							fl, _ = val.(*ast.FuncLit)
						} else if vc, ok := val.(*ast.CompositeLit); ok {
							for _, ve := range vc.Elts {
								vkv, ok := ve.(*ast.KeyValueExpr)
								if !ok {
									continue
								}
								fname := exprText(fset, vkv.Key)
								if fname == fnField {
									fl, _ = vkv.Value.(*ast.FuncLit)
								} else {
									ent.env[fname] = exprText(fset, vkv.Value)
								}
							}
						}
						if fl == nil {
							return nil, fmt.Errorf("table %s[%s]: no function literal in field %s", varName, ent.name, fnField)
						}
						p := fset.Position(fl.Type.Func)
						ent.pos = fmt.Sprintf("%s:%d:%d", filepath.Base(p.Filename), p.Line, p.Column)
						out = append(out, ent)
					}
					return out, nil
				}
			}
		}
	}
	return nil, fmt.Errorf("table variable %s not found in %s", varName, dir)
}

var placeholderRe = regexp.MustCompile(`\$\{([A-Za-z_][A-Za-z0-9_]*)\}`)

func substPlaceholders(s string, env map[string]string) (string, error) {
	var err error
	for depth := 0; depth < 8 && strings.Contains(s, "${"); depth++ {
		s = placeholderRe.ReplaceAllStringFunc(s, func(m string) string {
			n := placeholderRe.FindStringSubmatch(m)[1]
			v, ok := env[n]
			if !ok {
				err = fmt.Errorf("undefined placeholder ${%s}", n)
				return "?"
			}
			return v
		})
		if err != nil {
			return "", err
		}
	}
	return s, nil
}

func evalLet(rhs string, env map[string]string) (string, error) {
	rhs = strings.TrimSpace(rhs)
	if !strings.HasPrefix(rhs, "select ") {
		return substPlaceholders(rhs, env)
	}
	ob := -1
	for i := 0; i < len(rhs); i++ {
		if rhs[i] == '{' && (i == 0 || rhs[i-1] != '$') {
			ob = i
			break
		}
	}
	cb := strings.LastIndex(rhs, "}")
	if ob < 0 || cb < ob {
		return "", fmt.Errorf("select needs { ... }")
	}
	subj, err := substPlaceholders(strings.TrimSpace(rhs[len("select "):ob]), env)
	if err != nil {
		return "", err
	}
	st := strings.Fields(subj)
	for _, alt := range strings.Split(rhs[ob+1:cb], ";") {
		alt = strings.TrimSpace(alt)
		if alt == "" {
			continue
		}
		k := strings.Index(alt, "=>")
		if k < 0 {
			return "", fmt.Errorf("select alternative without =>: %s", alt)
		}
		pt := strings.Fields(alt[:k])
		match := len(pt) == len(st) || (len(pt) == 1 && pt[0] == "*")
		if match && !(len(pt) == 1 && pt[0] == "*") {
			for i := range pt {
				if pt[i] != "*" && pt[i] != st[i] {
					match = false
				}
			}
		}
		if match {
			return substPlaceholders(strings.TrimSpace(alt[k+2:]), env)
		}
	}
	return "", fmt.Errorf("select %q: no alternative matches", subj)
}

// expandTables rewrites `//@ table` blocks of a contract file into per-entry `//@ func` blocks.
// tablePos receives, per generated contract key, the position of the entry's function literal.
func expandTables(file string, lines []string, tablePos map[string]string) ([]string, error) {
	var out []string
	for i := 0; i < len(lines); i++ {
		t := strings.TrimSpace(lines[i])
		if !strings.HasPrefix(t, "//@") || !strings.HasPrefix(strings.TrimSpace(t[3:]), "table ") {
			out = append(out, lines[i])
			continue
		}
		hdr := strings.Fields(strings.TrimSpace(t[3:]))
		if len(hdr) != 3 {
			return nil, fmt.Errorf("%s:%d: table needs <variable> <function field>", file, i+1)
		}
		// the block: following //@ lines up to a blank/non-contract line or the next top-level keyword
		var block []string
		j := i + 1
		for ; j < len(lines); j++ {
			bt := strings.TrimSpace(lines[j])
			if !strings.HasPrefix(bt, "//@") {
				break
			}
			w := strings.Fields(strings.TrimSpace(bt[3:]))
			if len(w) > 0 && (w[0] == "func" || w[0] == "table" || w[0] == "spec" || w[0] == "lemma" || w[0] == "ghost" || w[0] == "package") {
				break
			}
			block = append(block, strings.TrimSpace(bt[3:]))
		}
		entries, err := readTable(filepath.Dir(file), file, hdr[1], hdr[2])
		if err != nil {
			return nil, fmt.Errorf("%s:%d: %v", file, i+1, err)
		}
		// split the block into lets and clause lines (continuation lines join the previous item)
		type item struct {
			let  string
			text string
		}
		var items []item
		for _, b := range block {
			w := strings.Fields(b)
			switch {
			case len(w) >= 3 && w[0] == "let" && w[2] == "=":
				items = append(items, item{let: w[1], text: strings.TrimSpace(b[strings.Index(b, "=")+1:])})
			case len(w) > 0 && clauseKeywords[w[0]]:
				items = append(items, item{text: b})
			case len(items) > 0:
				items[len(items)-1].text += " " + b
			default:
				return nil, fmt.Errorf("%s:%d: table block starts with a continuation line", file, i+1)
			}
		}
		for _, ent := range entries {
			env := map[string]string{}
			for k, v := range ent.env {
				env[k] = v
			}
			key := fmt.Sprintf("%s[%s]", hdr[1], ent.name)
			out = append(out, "//@ func "+key)
			for _, it := range items {
				if it.let != "" {
					v, err := evalLet(it.text, env)
					if err != nil {
						return nil, fmt.Errorf("%s:%d: entry %s: let %s: %v", file, i+1, key, it.let, err)
					}
					env[it.let] = v
					continue
				}
				txt, err := substPlaceholders(it.text, env)
				if err != nil {
					return nil, fmt.Errorf("%s:%d: entry %s: %v", file, i+1, key, err)
				}
				out = append(out, "//@   "+txt)
			}
			tablePos[key] = ent.pos
		}
		// keep line numbering roughly aligned is not possible after expansion; callers report
		// the table's line for generated clauses
		i = j - 1
	}
	_ = os.Stderr
	return out, nil
}
