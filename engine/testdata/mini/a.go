package mini

type E struct {
	ID    string
	Level int
}

type T struct {
	sorted []*E
	events map[string]*E
}

func (t *T) add(e *E) {
	t.sorted = append(t.sorted, e)
}

func (t *T) addNew(id string) {
	cur := t.events[id]
	if cur == nil {
		cur = new(E)
		t.events[id] = cur
		t.sorted = append(t.sorted, cur)
	}
	cur.Level = 3
}

type S struct {
	ID      string
	Message string
	Level   int
}

type U struct {
	events map[string]*S
	sorted []*S
}

func (t *U) upd(state S) (S, bool) {
	var hasPrev, needSort bool
	cur := t.events[state.ID]
	if cur == nil {
		needSort = true
		cur = new(S)
		t.events[state.ID] = cur
		t.sorted = append(t.sorted, cur)
	} else {
		hasPrev = true
	}
	needSort = needSort || cur.Level != state.Level

	prev := *cur
	*cur = state
	if needSort {
		mark(t.sorted)
	}
	return prev, hasPrev
}

func mark(s []*S) {}

type sortedS []*S

func (e sortedS) Len() int { return len(e) }

type lenner interface{ Len() int }

func markI(s lenner) {}

func (t *U) upd2(state S) {
	cur := t.events[state.ID]
	if cur == nil {
		cur = new(S)
		t.events[state.ID] = cur
		t.sorted = append(t.sorted, cur)
	}
	*cur = state
	markI(sortedS(t.sorted))
}

func sortS(s []*S) {}

func (t *U) upd3(state S) (S, bool) {
	var hasPrev, needSort bool
	cur := t.events[state.ID]
	if cur == nil {
		needSort = true
		cur = new(S)
		t.events[state.ID] = cur
		t.sorted = append(t.sorted, cur)
	} else {
		hasPrev = true
	}
	needSort = needSort || cur.Level != state.Level

	prev := *cur
	*cur = state
	if needSort {
		sortS(t.sorted)
	}
	return prev, hasPrev
}
