//go:build verif

package mini

//@ spec noNil(s []*E) bool = forall i int :: 0 <= i && i < len(s) ==> s[i] != nil

//@ func (*T).add
//@   props T01
//@   requires noNil(t.sorted) && e != nil
//@   modifies t.sorted, elems(t.sorted)
//@   ensures noNil(t.sorted)
//@   ensures len(t.sorted) == old(len(t.sorted)) + 1
//@   ensures t.sorted[len(t.sorted)-1] == e
//@   ensures forall i int :: 0 <= i && i < old(len(t.sorted)) ==> t.sorted[i] == old(t.sorted[i])

//@ func (*T).addNew
//@   props T02
//@   requires noNil(t.sorted) && t.events != nil
//@   requires forall k string :: has(t.events, k) ==> t.events[k] != nil
//@   modifies t.sorted, elems(t.sorted), map(t.events), object(t.events[id])
//@   ensures noNil(t.sorted)
//@   ensures has(t.events, id) && t.events[id].Level == 3

//@ spec noNilS(s []*S) bool = forall i int :: 0 <= i && i < len(s) ==> s[i] != nil

//@ func mark
//@   trusted
//@   requires noNilS(s)
//@   pure

//@ func (*U).upd
//@   props T03
//@   requires noNilS(t.sorted) && t.events != nil
//@   requires forall k string :: has(t.events, k) ==> t.events[k] != nil
//@   modifies t.sorted, elems(t.sorted), map(t.events), object(t.events[state.ID])
//@   ensures noNilS(t.sorted)
//@   ensures has(t.events, state.ID) && *t.events[state.ID] == state

//@ func markI
//@   trusted
//@   requires noNilS(as(s, sortedS))
//@   pure

//@ func (*U).upd2
//@   props T04
//@   requires noNilS(t.sorted) && t.events != nil
//@   requires forall k string :: has(t.events, k) ==> t.events[k] != nil
//@   modifies t.sorted, elems(t.sorted), map(t.events), object(t.events[state.ID])
//@   ensures noNilS(t.sorted)

//@ spec sLess(a *S, b *S) bool = a.Level > b.Level || (a.Level == b.Level && a.ID < b.ID)
//@ spec sortedS_OK(s []*S) bool = forall i int, j int :: 0 <= i && i < j && j < len(s) ==> !sLess(s[j], s[i])
//@ spec inv1(t *U) bool = forall i int :: 0 <= i && i < len(t.sorted) ==> t.sorted[i] != nil && has(t.events, t.sorted[i].ID) && t.events[t.sorted[i].ID] == t.sorted[i]
//@ spec inv2(t *U) bool = forall i int, j int :: 0 <= i && i < j && j < len(t.sorted) ==> t.sorted[i] != t.sorted[j]
//@ spec inv4(t *U) bool = forall k string :: has(t.events, k) ==> t.events[k] != nil && t.events[k].ID == k

//@ func sortS
//@   trusted
//@   requires noNilS(s)
//@   modifies elems(s)
//@   ensures sortedS_OK(s)
//@   ensures forall i int :: 0 <= i && i < len(s) ==> 0 <= uf("perm", int, callid, i) && uf("perm", int, callid, i) < len(s) && s[i] == old(s[uf("perm", int, callid, i)])
//@   ensures forall i int, j int :: 0 <= i && i < j && j < len(s) ==> uf("perm", int, callid, i) != uf("perm", int, callid, j)

//@ func (*U).upd3
//@   props T05
//@   requires t.events != nil && inv1(t) && inv2(t) && inv4(t) && sortedS_OK(t.sorted) && len(t.sorted) == len(t.events)
//@   modifies t.sorted, elems(t.sorted), map(t.events), object(t.events[state.ID])
//@   ensures [inv1] inv1(t)
//@   ensures [inv2] inv2(t)
//@   ensures [inv4] inv4(t)
//@   ensures [sorted] sortedS_OK(t.sorted)
//@   ensures [len] len(t.sorted) == len(t.events)
