module mini

go 1.25
