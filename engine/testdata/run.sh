#!/bin/bash
# engine unit checks on the mini package: ./run.sh <prop> [flags]
cd "$(dirname "$0")/../.." && . ./env.sh && export PATH="$(dirname "$ENGINE_GO"):$PATH"
exec build/bin/govc check -prop "$1" -repo "$VERIF_ROOT/engine/testdata/mini" -verif "$VERIF_ROOT" -no-evidence "${@:2}"
