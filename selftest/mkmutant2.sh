#!/bin/bash
# mkmutant2.sh <name> <file relative to repo> <old> <new> [expect]
# Like mkmutant.sh but never touches /repo: the patch is made from a temporary copy of the file
# (safe while checks are running against /repo).
set -euo pipefail
name="$1"; file="$2"; old="$3"; new="$4"; expect="${5:-fail}"
tmp=$(mktemp -d /var/tmp/mkmutant.XXXXXX)
mkdir -p "$tmp/a/$(dirname "$file")" "$tmp/b/$(dirname "$file")"
git -C /repo show "HEAD:$file" > "$tmp/a/$file"
python3 - "$tmp/a/$file" "$tmp/b/$file" "$old" "$new" <<'PY'
import sys
src,dst,old,new=sys.argv[1:5]
s=open(src).read()
if s.count(old)!=1:
    print("pattern occurs %d times"%s.count(old)); sys.exit(1)
open(dst,'w').write(s.replace(old,new))
PY
(cd "$tmp" && diff -u "a/$file" "b/$file" > "/verif/selftest/mutants/$name.patch" || true)
rm -rf "$tmp"
[ -s "/verif/selftest/mutants/$name.patch" ] || { echo "empty patch"; exit 1; }
echo "$expect" > "/verif/selftest/mutants/$name.expect"
echo "created $name ($expect)"
