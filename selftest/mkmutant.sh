#!/bin/bash
# mkmutant.sh <name> <file relative to repo> <python-replace-old> <python-replace-new> [expect]
# Creates selftest/mutants/<name>.patch from /repo's committed state (nothing is left modified).
set -euo pipefail
name="$1"; file="$2"; old="$3"; new="$4"; expect="${5:-fail}"
cd /repo
git diff --quiet -- "$file" || { echo "uncommitted changes in $file"; exit 1; }
python3 - "$file" "$old" "$new" <<'PY'
import sys
p,old,new=sys.argv[1:4]
s=open(p).read()
if s.count(old)!=1:
    print("pattern occurs %d times in %s"%(s.count(old),p)); sys.exit(1)
open(p,'w').write(s.replace(old,new))
PY
git diff -- "$file" > "/verif/selftest/mutants/$name.patch"
git checkout -- "$file"
echo "$expect" > "/verif/selftest/mutants/$name.expect"
echo "created $name ($expect)"
